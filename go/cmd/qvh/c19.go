package main

// Area c19: the transaction pool stays internally consistent.
//
// The real core.TxPool runs over a scripted chain (real StateDB, real blocks, a head feed the harness drives), with a
// 1 ms reorg tick so that quiescence is reached quickly.  A case is one history of submissions (fresh nonces, gaps,
// same-nonce replacements around the price-bump threshold, unaffordable and stale ones, duplicates) and head
// changes (blocks that include a prefix of an account's executable transactions, balance changes, reorgs to a
// sibling branch that resurrect transactions).  After every operation the pool is allowed to settle and each
// account's (pending, queued) lists are compared with the model; the invariants of the property are checked on the
// pool's own snapshot (Content / Stats / Get).  A second kind of case floods a pool with tiny limits from several
// goroutines while heads change, and checks the invariants and the limits at quiescence.

import (
	"crypto/ecdsa"
	"fmt"
	"math/big"
	"os"
	"sort"
	"strings"
	"sync"
	"time"

	"verifharness/internal/h"

	"github.com/dominant-strategies/go-quai/common"
	"github.com/dominant-strategies/go-quai/consensus"
	"github.com/dominant-strategies/go-quai/core"
	"github.com/dominant-strategies/go-quai/core/rawdb"
	"github.com/dominant-strategies/go-quai/core/state"
	"github.com/dominant-strategies/go-quai/core/types"
	"github.com/dominant-strategies/go-quai/crypto"
	"github.com/dominant-strategies/go-quai/event"
	"github.com/dominant-strategies/go-quai/log"
	"github.com/dominant-strategies/go-quai/params"
)

func init() { areas["c19"] = runC19 }

type poolChain struct {
	mu     sync.Mutex
	sdb    state.Database
	edb    state.Database
	blocks map[common.Hash]*types.WorkObject
	head   *types.WorkObject
	gen    common.Hash
	feed   event.Feed
	loc    common.Location
}

func (c *poolChain) CurrentBlock() *types.WorkObject { c.mu.Lock(); defer c.mu.Unlock(); return c.head }
func (c *poolChain) GetBlock(hs common.Hash, _ uint64) *types.WorkObject {
	c.mu.Lock()
	defer c.mu.Unlock()
	return c.blocks[hs]
}
func (c *poolChain) StateAt(root, etxRoot common.Hash, size *big.Int) (*state.StateDB, error) {
	return state.New(root, etxRoot, size, c.sdb, c.edb, nil, c.loc, log.Global)
}
func (c *poolChain) SubscribeChainHeadEvent(ch chan<- core.ChainHeadEvent) event.Subscription {
	return c.feed.Subscribe(ch)
}
func (c *poolChain) IsGenesisHash(hs common.Hash) bool                      { return hs == c.gen }
func (c *poolChain) CheckIfEtxIsEligible(common.Hash, common.Location) bool { return true }
func (c *poolChain) Engine(*types.WorkObjectHeader) consensus.Engine        { return nil }
func (c *poolChain) GetHeaderOrCandidateByHash(hs common.Hash) *types.WorkObject {
	return c.GetBlock(hs, 0)
}
func (c *poolChain) NodeCtx() int                                            { return common.ZONE_CTX }
func (c *poolChain) GetHeaderByHash(hs common.Hash) *types.WorkObject        { return c.GetBlock(hs, 0) }
func (c *poolChain) GetBlockByHash(hs common.Hash) *types.WorkObject         { return c.GetBlock(hs, 0) }
func (c *poolChain) GetMaxTxInWorkShare() uint64                             { return 100 }
func (c *poolChain) CheckInCalcOrderCache(common.Hash) (*big.Int, int, bool) { return nil, 0, false }
func (c *poolChain) AddToCalcOrderCache(common.Hash, int, *big.Int)          {}
func (c *poolChain) CalcBaseFee(*types.WorkObject) *big.Int                  { return big.NewInt(1) }
func (c *poolChain) CalcOrder(*types.WorkObject) (*big.Int, int, error) {
	return big.NewInt(0), common.ZONE_CTX, nil
}

type p19Acct struct {
	key     *ecdsa.PrivateKey
	addr    common.Address
	ia      common.InternalAddress
	nonce   uint64 // chain state
	balance uint64
}

// newBlock builds a block on parent with the given transactions and account states
func (c *poolChain) newBlock(parent *types.WorkObject, txs types.Transactions, accts []*p19Acct, salt uint64) *types.WorkObject {
	st, err := state.New(types.EmptyRootHash, types.EmptyRootHash, big.NewInt(0), c.sdb, c.edb, nil, c.loc, log.Global)
	if err != nil {
		panic(err)
	}
	for _, a := range accts {
		st.SetNonce(a.ia, a.nonce)
		st.SetBalance(a.ia, new(big.Int).SetUint64(a.balance))
	}
	root, err := st.Commit(true)
	if err != nil {
		panic(err)
	}
	wo := types.EmptyWorkObject(common.ZONE_CTX)
	num := uint64(1)
	if parent != nil {
		num = parent.NumberU64(common.ZONE_CTX) + 1
		wo.SetParentHash(parent.Hash(), common.ZONE_CTX)
	}
	wo.SetNumber(new(big.Int).SetUint64(num), common.ZONE_CTX)
	wo.Header().SetEVMRoot(root)
	wo.Header().SetEtxSetRoot(types.EmptyRootHash)
	wo.Header().SetQuaiStateSize(st.GetQuaiTrieSize())
	wo.Header().SetGasLimit(5_000_000)
	wo.Header().SetBaseFee(big.NewInt(1))
	wo.Header().SetExtra([]byte(fmt.Sprint(salt)))
	wo.WorkObjectHeader().SetLocation(c.loc)
	wo.WorkObjectHeader().SetTime(1000 + num)
	wo.Body().SetTransactions(txs)
	wo.WorkObjectHeader().SetHeaderHash(wo.Body().Header().Hash())
	c.mu.Lock()
	c.blocks[wo.Hash()] = wo
	c.mu.Unlock()
	return wo
}

func (c *poolChain) setHead(b *types.WorkObject) {
	c.mu.Lock()
	c.head = b
	c.mu.Unlock()
	c.feed.Send(core.ChainHeadEvent{Block: b})
}

func p19Accounts(n int) (out []*p19Acct) {
	loc := common.Location{0, 0}
	for i := 0; len(out) < n; i++ {
		k, err := crypto.ToECDSA(crypto.Keccak256([]byte("qvh-pool-key"), big.NewInt(int64(i)).Bytes()))
		if err != nil {
			continue
		}
		addr := crypto.PubkeyToAddress(k.PublicKey, loc)
		if ia, err := addr.InternalAndQuaiAddress(); err == nil {
			out = append(out, &p19Acct{key: k, addr: addr, ia: ia})
		}
	}
	return
}

var p19ChainID = big.NewInt(1337)

func p19Tx(a *p19Acct, nonce, price, value uint64) *types.Transaction {
	to := common.HexToAddress("0x0000000000000000000000000000000000000099", common.Location{0, 0})
	tx, err := types.SignTx(types.NewTx(&types.QuaiTx{ChainID: p19ChainID, Nonce: nonce, GasPrice: new(big.Int).SetUint64(price), Gas: 21000, To: &to, Value: new(big.Int).SetUint64(value)}),
		types.NewSigner(p19ChainID, common.Location{0, 0}), a.key)
	if err != nil {
		panic(err)
	}
	return tx
}

func p19Class(err error) string {
	if err == nil {
		return "ok"
	}
	s := err.Error()
	switch {
	case strings.Contains(s, "already known"):
		return "known"
	case strings.Contains(s, "nonce too low"):
		return "nonce-too-low"
	case strings.Contains(s, "insufficient funds"):
		return "insufficient-funds"
	case strings.Contains(s, "replacement transaction underpriced"):
		return "replace-underpriced"
	}
	return "other:" + s
}

// p19Show: everything the pool holds for the account in nonce order, and how many of them are pending.  A promotion
// that the pool has not carried out yet (the account was not re-examined since the transaction became executable:
// pending is a strict prefix of the executable run) is reported as `p=?`: the model always shows the settled split.
func p19Show(pool *core.TxPool, a *p19Acct) string {
	p, q := pool.ContentFrom(a.ia)
	all := append(append(types.Transactions{}, p...), q...)
	sort.Slice(all, func(i, j int) bool { return all[i].Nonce() < all[j].Nonce() })
	sort.Slice(p, func(i, j int) bool { return p[i].Nonce() < p[j].Nonce() })
	var out []string
	run := 0
	for i, t := range all {
		out = append(out, fmt.Sprintf("%d:%s", t.Nonce(), short(t.Hash().Bytes())))
		if run == i && t.Nonce() == a.nonce+uint64(i) {
			run++
		}
	}
	ps := fmt.Sprint(len(p))
	if len(p) < run {
		lag := true
		for i, t := range p {
			if t.Hash() != all[i].Hash() {
				lag = false
			}
		}
		if lag {
			ps = "?"
		}
	}
	return fmt.Sprintf("held[%s] p=%s", strings.Join(out, " "), ps)
}

// settle waits until the pool's snapshot has stopped changing (reorg tick 1 ms)
func p19Settle(pool *core.TxPool, accts []*p19Acct) {
	time.Sleep(4 * time.Millisecond)
	prev, stable := "", 0
	for i := 0; i < 200; i++ {
		cur := ""
		for _, a := range accts {
			cur += p19Show(pool, a) + ";"
		}
		pn, qn, _ := pool.Stats()
		cur += fmt.Sprint(pn, qn)
		if cur == prev {
			stable++
			if stable >= 6 {
				return
			}
		} else {
			stable = 0
		}
		prev = cur
		time.Sleep(3 * time.Millisecond)
	}
}

// p19Invariants checks the property's invariants on the pool's own snapshot
func p19Invariants(o *h.Out, pool *core.TxPool, accts []*p19Acct, submitted map[common.Hash]*types.Transaction, where string) {
	pending, queued := pool.Content()
	listed := map[common.Hash]int{}
	np, nq := 0, 0
	for _, a := range accts {
		pl, ql := pending[a.ia], queued[a.ia]
		sort.Slice(pl, func(i, j int) bool { return pl[i].Nonce() < pl[j].Nonce() })
		for i, t := range pl {
			np++
			listed[t.Hash()]++
			if t.Nonce() != a.nonce+uint64(i) {
				o.Violate("c19-pending-not-contiguous", fmt.Sprintf("%s: account %x state nonce %d: pending nonces %s", where, a.addr.Bytes()[:4], a.nonce, nonces(pl)))
				break
			}
		}
		for _, t := range pl {
			if t.Cost().Cmp(new(big.Int).SetUint64(a.balance)) > 0 {
				o.Violate("c19-pending-not-affordable", fmt.Sprintf("%s: account %x balance %d holds pending tx nonce %d cost %s", where, a.addr.Bytes()[:4], a.balance, t.Nonce(), t.Cost()))
			}
		}
		seen := map[uint64]bool{}
		for _, t := range pl {
			seen[t.Nonce()] = true
		}
		for _, t := range ql {
			nq++
			listed[t.Hash()]++
			if seen[t.Nonce()] {
				o.Violate("c19-nonce-both-pending-and-queued", fmt.Sprintf("%s: account %x nonce %d (pending %s queued %s)", where, a.addr.Bytes()[:4], t.Nonce(), nonces(pl), nonces(ql)))
			}
			seen[t.Nonce()] = true
			if t.Nonce() < a.nonce {
				o.Violate("c19-stale-tx-kept", fmt.Sprintf("%s: account %x state nonce %d keeps queued nonce %d", where, a.addr.Bytes()[:4], a.nonce, t.Nonce()))
			}
		}
	}
	for hs, n := range listed {
		if n != 1 {
			o.Violate("c19-tx-listed-twice", fmt.Sprintf("%s: tx %x appears %d times in the per-account lists", where, hs.Bytes()[:4], n))
		}
		if pool.Get(hs) == nil {
			o.Violate("c19-listed-tx-not-in-hash-index", fmt.Sprintf("%s: tx %x is in a per-account list but Get(hash) does not find it", where, hs.Bytes()[:4]))
		}
	}
	for hs, t := range submitted {
		if pool.Get(hs) != nil && listed[hs] == 0 {
			o.Violate("c19-indexed-tx-not-listed", fmt.Sprintf("%s: tx %x (nonce %d) is in the hash index but in no per-account list", where, hs.Bytes()[:4], t.Nonce()))
		}
	}
	if sp, sq, _ := pool.Stats(); sp != np || sq != nq {
		o.Violate("c19-stats-differ-from-lists", fmt.Sprintf("%s: Stats says %d pending %d queued, the lists hold %d and %d", where, sp, sq, np, nq))
	}
}

func nonces(l types.Transactions) string {
	var s []string
	for _, t := range l {
		s = append(s, fmt.Sprint(t.Nonce()))
	}
	return "[" + strings.Join(s, " ") + "]"
}

func newP19Pool(cfg core.TxPoolConfig, accts []*p19Acct) (*core.TxPool, *poolChain, *types.WorkObject) {
	loc := common.Location{0, 0}
	mdb := newMemDB()
	ch := &poolChain{sdb: state.NewDatabase(mdb), edb: state.NewDatabase(newMemDB()), blocks: map[common.Hash]*types.WorkObject{}, loc: loc}
	g := ch.newBlock(nil, nil, accts, 0)
	ch.gen = common.Hash{1}
	ch.head = g
	cc := *params.Blake3PowLocalChainConfig
	cc.Location = loc
	cc.ChainID = p19ChainID
	pool := core.NewTxPool(cfg, &cc, ch, log.Global, mdb)
	return pool, ch, g
}

func runC19(seed uint64, n int, outDir string, replay string) {
	o := h.NewOut(outDir, "c19")
	r := h.NewRng(seed)
	ans := func(s string) { o.Ans("impl", "%s", s) }
	cwSetParams(cwRegime{})
	for c := 0; c < n; c++ {
		rc := r.Fork()
		o.NewCase()
		o.Op("newcase")
		ans("ok")
		if c%5 == 4 {
			rl := rc.Fork() // the local-accounts scenario rides along with the flood cases: the modelled cases keep their streams
			c19Flood(o, rc)
			c19Locals(o, rl)
			c19Locals(o, rl.Fork())
			for t := 0; t < 5; t++ {
				c19Truncate(o, rl.Fork())
			}
			o.EndCase(fmt.Sprint(rc.U64()), true)
			continue
		}
		caseDone := make(chan struct{})
		go func() {
			defer close(caseDone)
			defer func() {
				if p := recover(); p != nil {
					o.Violate("c19-panic", fmt.Sprintf("panic: %v at %s", p, stackTop()))
					o.Pad("panic %v", p)
				}
			}()
			accts := p19Accounts(3)
			for _, a := range accts {
				a.nonce = uint64(rc.Intn(3))
				a.balance = 5_000_000 + uint64(rc.Intn(5_000_000))
			}
			cfg := core.DefaultTxPoolConfig
			cfg.Journal = ""
			cfg.ReorgFrequency = time.Millisecond
			cfg.NoLocals = true
			pool, ch, head := newP19Pool(cfg, accts)
			defer pool.Stop()
			o.Op("cfg bump %d", cfg.PriceBump)
			ans("ok")
			for i, a := range accts {
				o.Op("acct a%d %d %d", i, a.nonce, a.balance)
				ans("ok")
			}
			submitted := map[common.Hash]*types.Transaction{}
			var all []*types.Transaction
			// branch bookkeeping for reorgs: blocks above the fork point on the current branch, with their txs
			type blk struct {
				b   *types.WorkObject
				txs types.Transactions
			}
			var branch []blk
			base := head
			baseState := make([][2]uint64, len(accts))
			for i, a := range accts {
				baseState[i] = [2]uint64{a.nonce, a.balance}
			}
			show := func(where string) {
				p19Settle(pool, accts)
				for i, a := range accts {
					o.Op("show a%d", i)
					ans(p19Show(pool, a))
				}
				p19Invariants(o, pool, accts, submitted, where)
			}
			// a transaction signed for another chain id, its hash (and with it the sender cached under its own chain id)
			// already computed as the network layer does on receipt: the pool must not take the cached sender for valid
			{
				other := new(big.Int).Add(p19ChainID, big.NewInt(1))
				a := accts[rc.Intn(len(accts))]
				to := common.HexToAddress("0x0000000000000000000000000000000000000099", common.Location{0, 0})
				ftx, err := types.SignTx(types.NewTx(&types.QuaiTx{ChainID: other, Nonce: a.nonce, GasPrice: big.NewInt(100), Gas: 21000, To: &to, Value: big.NewInt(1)}), types.NewSigner(other, common.Location{0, 0}), a.key)
				if err == nil {
					_ = ftx.Hash(common.Location{0, 0}...)
					if errs := pool.AddRemotesSync([]*types.Transaction{ftx}); errs[0] == nil {
						o.Violate("c03-pool-accepts-transaction-of-another-chain", fmt.Sprintf("a transaction signed for chain id %s is accepted by the pool of chain %s", other, p19ChainID))
					} else {
						o.Count("other-chain-tx-refused")
					}
				}
			}
			dropFor := map[int]uint64{}
			for step, steps := 0, 16+rc.Intn(28); step < steps; step++ {
				ai := rc.Intn(len(accts))
				a := accts[ai]
				switch k := rc.Intn(10); {
				case k < 6: // submit
					pend, que := pool.ContentFrom(a.ia)
					nonce := a.nonce + uint64(len(pend))
					price := uint64(100 + rc.Intn(30))
					value := uint64(rc.Intn(1000))
					kind := []int{0, 0, 0, 2, 2, 2, 4, 5, 6, 7, 7, 7}[rc.Intn(12)]
					if len(que) >= 2 && rc.Chance(35) {
						kind = 8
					} else if len(que) == 1 && rc.Chance(35) {
						kind = 9
					}
					switch kind {
					case 9: // a second queued transaction, leaving a gap inside the queue
						nonce = que[0].Nonce() + 2
					case 8: // a valid replacement of a queued transaction - the last one, beyond any gap inside the queue
						sort.Slice(que, func(i, j int) bool { return que[i].Nonce() < que[j].Nonce() })
						old := que[len(que)-1-rc.Intn(2)]
						nonce = old.Nonce()
						price = old.GasPrice().Uint64()*2 + uint64(rc.Intn(5))
						o.Count("directed-queued-replacement")
					case 0, 1: // a gap
						nonce += 1 + uint64(rc.Intn(3))
						if len(que) > 0 && rc.Chance(50) { // or beyond what is already queued
							sort.Slice(que, func(i, j int) bool { return que[i].Nonce() < que[j].Nonce() })
							nonce = que[len(que)-1].Nonce() + 1 + uint64(rc.Intn(2))
						}
					case 2, 3: // replacement of an existing entry, around the bump threshold
						var cand types.Transactions
						cand = append(append(cand, pend...), que...)
						if len(que) > 0 && rc.Chance(70) {
							cand = que
						}
						if len(cand) > 0 {
							old := cand[rc.Intn(len(cand))]
							nonce = old.Nonce()
							op := old.GasPrice().Uint64()
							price = []uint64{op, op + 1, op * 105 / 100, op*105/100 - 1, op*105/100 + 1, op * 2}[rc.Intn(6)]
						}
					case 4: // stale
						if a.nonce > 0 {
							nonce = a.nonce - 1
						}
					case 5: // cannot be afforded
						value = a.balance
					case 6: // resubmission
						if len(all) > 0 {
							tx := all[rc.Intn(len(all))]
							from, _ := types.Sender(types.NewSigner(p19ChainID, common.Location{0, 0}), tx)
							for j, b := range accts {
								if b.addr.Equal(from) {
									o.Op("add a%d %s:%d:%d:%s", j, short(tx.Hash().Bytes()), tx.Nonce(), tx.GasPrice().Uint64(), tx.Cost())
									bp, bq := pool.ContentFrom(b.ia)
									errs := pool.AddRemotesSync([]*types.Transaction{tx})
									res := p19Class(errs[0])
									if res == "ok" {
										for _, t := range append(append(types.Transactions{}, bp...), bq...) {
											if t.Nonce() == tx.Nonce() {
												res = "replaced"
											}
										}
									}
									ans(res)
								}
							}
							show(fmt.Sprintf("step %d", step))
							continue
						}
					}
					tx := p19Tx(a, nonce, price, value)
					submitted[tx.Hash()] = tx
					all = append(all, tx)
					o.Op("add a%d %s:%d:%d:%s", ai, short(tx.Hash().Bytes()), tx.Nonce(), tx.GasPrice().Uint64(), tx.Cost())
					errs := pool.AddRemotesSync([]*types.Transaction{tx})
					res := p19Class(errs[0])
					if res == "ok" {
						// the pool reports a replacement like a fresh insert; the model tells them apart
						for _, t := range append(append(types.Transactions{}, pend...), que...) {
							if t.Nonce() == nonce {
								res = "replaced"
							}
						}
					}
					ans(res)
					if res == "replaced" {
						dropFor[ai] = tx.Cost().Uint64() // the next block leaves this account just short of the replacement's cost
					}
				case k < 9: // a block on the current head: includes a prefix of some accounts' executable transactions
					var inc types.Transactions
					for bi, b := range accts {
						pend, _ := pool.ContentFrom(b.ia)
						sort.Slice(pend, func(i, j int) bool { return pend[i].Nonce() < pend[j].Nonce() })
						take := rc.Intn(len(pend) + 1)
						if rc.Chance(40) {
							take = 0
						}
						if c, ok := dropFor[bi]; ok {
							delete(dropFor, bi)
							if c > 10 && rc.Chance(70) {
								take = 0
								b.balance = c - 1 - uint64(rc.Intn(3))
								for _, t := range pend[:take] {
									inc = append(inc, t)
								}
								continue
							}
						}
						for _, t := range pend[:take] {
							inc = append(inc, t)
							b.nonce = t.Nonce() + 1
						}
						if rc.Chance(25) {
							b.balance = 1_000_000 + uint64(rc.Intn(9_000_000))
						} else if rest := pend[take:]; len(rest) > 0 && rc.Chance(30) {
							// just below the cost of the costliest transaction that stays: it must go, whatever the list's
							// cached cost cap says (a replacement may have raised the real cost)
							var mx uint64
							for _, t := range rest {
								if c := t.Cost().Uint64(); c > mx {
									mx = c
								}
							}
							if mx > 10 {
								b.balance = mx - 1 - uint64(rc.Intn(5))
							}
						}
					}
					nb := ch.newBlock(ch.CurrentBlock(), inc, accts, uint64(step))
					branch = append(branch, blk{nb, inc})
					ch.setHead(nb)
					for i, b := range accts {
						o.Op("reset a%d %d %d", i, b.nonce, b.balance)
						ans("ok")
					}
				default: // reorg: a sibling branch from the fork point that includes nothing of ours
					if len(branch) == 0 {
						continue
					}
					for i, b := range accts {
						b.nonce, b.balance = baseState[i][0], baseState[i][1]
						if rc.Chance(30) {
							b.balance = 1_000_000 + uint64(rc.Intn(9_000_000))
						}
					}
					if rc.Chance(45) {
						// on the new branch one account can no longer afford the oldest of its transactions the abandoned blocks
						// carried: it does not come back, and whatever of that account is still pending hangs in the air
						var oldest *types.Transaction
						oi := -1
						for j := 0; j < len(branch) && oldest == nil; j++ {
							for _, t := range branch[j].txs {
								from, _ := types.Sender(types.NewSigner(p19ChainID, common.Location{0, 0}), t)
								for i, b := range accts {
									if b.addr.Equal(from) && (oldest == nil || t.Nonce() < oldest.Nonce()) {
										oldest, oi = t, i
									}
								}
							}
						}
						if oldest != nil && oldest.Cost().Uint64() > 10 {
							accts[oi].balance = oldest.Cost().Uint64() - 1 - uint64(rc.Intn(3))
							o.Count("reorg-oldest-reinjected-unaffordable")
						}
					}
					var nb *types.WorkObject
					parent := base
					for j := 0; j <= len(branch); j++ { // one longer than the abandoned branch
						nb = ch.newBlock(parent, nil, accts, uint64(1000+step*10+j))
						parent = nb
					}
					// what the pool will re-inject per account: transactions of the abandoned blocks, oldest block first
					re := make([][]string, len(accts))
					for j := len(branch) - 1; j >= 0; j-- {
						for _, t := range branch[j].txs {
							from, _ := types.Sender(types.NewSigner(p19ChainID, common.Location{0, 0}), t)
							for i, b := range accts {
								if b.addr.Equal(from) {
									re[i] = append(re[i], fmt.Sprintf("%s:%d:%d:%s", short(t.Hash().Bytes()), t.Nonce(), t.GasPrice().Uint64(), t.Cost()))
								}
							}
						}
					}
					ch.setHead(nb)
					for i, b := range accts {
						o.Op("%s", strings.TrimSpace(fmt.Sprintf("reset a%d %d %d %s", i, b.nonce, b.balance, strings.Join(re[i], " "))))
						ans("ok")
					}
					branch = nil
					base = nb
					for i, b := range accts {
						baseState[i] = [2]uint64{b.nonce, b.balance}
					}
					o.Count("reorgs")
				}
				show(fmt.Sprintf("step %d", step))
			}
		}()
		select {
		case <-caseDone:
		case <-time.After(90 * time.Second):
			// the case is stuck inside the pool (a lock that is never released): nothing more can be learnt from this process
			o.Violate("c19-deadlock", "a sequence of submissions, blocks and reorganisations did not finish within 90 s: a pool call never returns")
			o.EndCase("stuck", true)
			o.Close(nil)
			os.Exit(0)
		}
		o.EndCase(fmt.Sprint(rc.U64()), true)
	}
	o.Close(nil)
}

// c19Locals: a pool that tracks local accounts (NoLocals off).  An account becomes local with its first AddLocal; from
// then on every transaction of it - whichever way it arrives, also a replacement delivered by a peer - is exempt from
// price-based eviction.  T3 after every step: the index invariants, and after a raise of the pool's price floor every
// transaction of a local account is still there while the hash index, the per-account lists and Stats still agree.
func c19Locals(o *h.Out, rc *h.Rng) {
	defer func() {
		if p := recover(); p != nil {
			o.Violate("c19-panic", fmt.Sprintf("locals: panic: %v at %s", p, stackTop()))
		}
	}()
	accts := p19Accounts(3)
	for _, a := range accts {
		a.nonce = uint64(rc.Intn(3))
		a.balance = 50_000_000
	}
	cfg := core.DefaultTxPoolConfig
	cfg.Journal = ""
	cfg.ReorgFrequency = time.Millisecond
	cfg.NoLocals = false
	pool, ch, _ := newP19Pool(cfg, accts)
	defer pool.Stop()
	submitted := map[common.Hash]*types.Transaction{}
	isLocal := map[int]bool{}
	floor := uint64(1)
	steps := 10 + rc.Intn(25)
	for step := 0; step < steps; step++ {
		switch k := rc.Intn(10); {
		case k < 7:
			ai := rc.Intn(len(accts))
			a := accts[ai]
			pend, que := pool.ContentFrom(a.ia)
			nonce := a.nonce + uint64(len(pend))
			price := floor + uint64(rc.Intn(40))
			if len(pend) > 0 && rc.Chance(45) {
				// a replacement of a pending transaction, priced well above the bump
				old := pend[rc.Intn(len(pend))]
				nonce = old.Nonce()
				price = old.GasPrice().Uint64()*2 + 5
			} else if rc.Chance(15) {
				nonce += 1 + uint64(rc.Intn(2)) // a gap: queued
			}
			_ = que
			tx := p19Tx(a, nonce, price, uint64(rc.Intn(100)))
			submitted[tx.Hash()] = tx
			var err error
			if ai == 0 && (!isLocal[0] || rc.Chance(35)) {
				err = pool.AddLocal(tx)
				if err == nil {
					isLocal[0] = true
				}
				o.Count("locals:add-local:" + p19Class(err))
			} else {
				err = pool.AddRemotesSync([]*types.Transaction{tx})[0]
				o.Count("locals:add-remote:" + p19Class(err))
			}
		case k < 8:
			var inc types.Transactions
			for _, b := range accts {
				pend, _ := pool.ContentFrom(b.ia)
				sort.Slice(pend, func(i, j int) bool { return pend[i].Nonce() < pend[j].Nonce() })
				take := rc.Intn(len(pend) + 1)
				for _, t := range pend[:take] {
					inc = append(inc, t)
					b.nonce = t.Nonce() + 1
				}
			}
			ch.setHead(ch.newBlock(ch.CurrentBlock(), inc, accts, uint64(step)))
		default:
			p19Settle(pool, accts)
			var keep []*types.Transaction
			if isLocal[0] {
				pend, que := pool.ContentFrom(accts[0].ia)
				keep = append(append(keep, pend...), que...)
			}
			floor += uint64(5 + rc.Intn(60))
			pool.SetGasPrice(new(big.Int).SetUint64(floor))
			o.Count("locals:price-raised")
			for _, t := range keep {
				if pool.Get(t.Hash()) == nil {
					o.Violate("c19-local-tx-evicted-by-price", fmt.Sprintf("raising the pool's price floor to %d removed transaction %x (nonce %d, price %s) of a local account", floor, t.Hash().Bytes()[:4], t.Nonce(), t.GasPrice()))
				}
			}
		}
		p19Settle(pool, accts)
		p19Invariants(o, pool, accts, submitted, fmt.Sprintf("locals step %d", step))
	}
}

// c19Truncate: the pending limits.  Small limits (AccountSlots 1-3, GlobalSlots 2-8), 2-4 accounts that each submit a
// run of consecutive, affordable transactions.  T3 at quiescence: the pool answers (no call hangs); every account keeps
// at least min(AccountSlots, what it submitted) pending transactions - the per-account guarantee that trimming the
// biggest senders must respect - and the total is within max(GlobalSlots, sum of the guaranteed amounts).
func c19Truncate(o *h.Out, rc *h.Rng) {
	done := make(chan struct{})
	go func() {
		defer close(done)
		defer func() {
			if p := recover(); p != nil {
				o.Violate("c19-panic", fmt.Sprintf("limits: panic: %v at %s", p, stackTop()))
			}
		}()
		k := 2 + rc.Intn(3)
		accts := p19Accounts(k)
		for _, a := range accts {
			a.nonce = 0
			a.balance = 500_000_000
		}
		cfg := core.DefaultTxPoolConfig
		cfg.Journal = ""
		cfg.ReorgFrequency = time.Millisecond
		cfg.NoLocals = true
		cfg.AccountSlots = uint64(1 + rc.Intn(3))
		cfg.GlobalSlots = uint64(2 + rc.Intn(7))
		cfg.AccountQueue, cfg.GlobalQueue = 64, 1024
		submitted := map[common.Hash]*types.Transaction{}
		sent := make([]int, k)
		order := []int{}
		lateOverflow := rc.Chance(45)
		for i := range accts {
			sent[i] = 1 + rc.Intn(8)
			if lateOverflow && i == 0 {
				sent[i] = 6 + rc.Intn(4) // the list that is advanced by the block and then cut is a long one
			}
			for j := 0; j < sent[i]; j++ {
				order = append(order, i)
			}
		}
		if lateOverflow {
			// room for everything at first: the limits only bite after a block has advanced one of the lists
			cfg.GlobalSlots = uint64(len(order) + rc.Intn(2))
		}
		pool, ch, _ := newP19Pool(cfg, accts)
		defer pool.Stop()
		for i := len(order) - 1; i > 0; i-- { // interleave the accounts' runs
			j := rc.Intn(i + 1)
			order[i], order[j] = order[j], order[i]
		}
		next := make([]uint64, k)
		for _, ai := range order {
			tx := p19Tx(accts[ai], next[ai], uint64(100+rc.Intn(20)), uint64(rc.Intn(100)))
			next[ai]++
			submitted[tx.Hash()] = tx
			pool.AddRemotesSync([]*types.Transaction{tx})
		}
		p19Settle(pool, accts)
		afterBlock := false
		if rc.Chance(60) || lateOverflow {
			// a block takes the first transaction of one account (its list is advanced), then another account sends a
			// further run: the limits are enforced again, on lists that have been cut at the front before
			ai := rc.Intn(k)
			if lateOverflow {
				ai = 0
			}
			if pend, _ := pool.ContentFrom(accts[ai].ia); len(pend) > 0 {
				sort.Slice(pend, func(i, j int) bool { return pend[i].Nonce() < pend[j].Nonce() })
				accts[ai].nonce = pend[0].Nonce() + 1
				ch.setHead(ch.newBlock(ch.CurrentBlock(), types.Transactions{pend[0]}, accts, 1))
				p19Settle(pool, accts)
				sent[ai]--
				bi := (ai + 1) % k
				more := 2 + rc.Intn(5)
				for j := 0; j < more; j++ {
					tx := p19Tx(accts[bi], next[bi], uint64(100+rc.Intn(20)), uint64(rc.Intn(100)))
					next[bi]++
					submitted[tx.Hash()] = tx
					pool.AddRemotesSync([]*types.Transaction{tx})
				}
				sent[bi] += more
				p19Settle(pool, accts)
				afterBlock = true
				o.Count("limits-case:after-a-block")
			}
		}
		p19Invariants(o, pool, accts, submitted, "limits")
		total, guaranteed := 0, 0
		var desc []string
		for i, a := range accts {
			pend, _ := pool.ContentFrom(a.ia)
			total += len(pend)
			g := min(int(cfg.AccountSlots), sent[i])
			guaranteed += g
			desc = append(desc, fmt.Sprintf("%d of %d", len(pend), sent[i]))
			if len(pend) < g && !afterBlock { // (after a block a list is also shorter because its head was mined: only the index invariants are checked then)
				o.Violate("c19-account-cut-below-its-guarantee", fmt.Sprintf("AccountSlots %d, GlobalSlots %d: account %d submitted %d consecutive transactions and keeps %d pending (all accounts: %s)", cfg.AccountSlots, cfg.GlobalSlots, i, sent[i], len(pend), strings.Join(desc, ", ")))
			}
		}
		if lim := max(int(cfg.GlobalSlots), guaranteed); total > lim && !afterBlock {
			o.Violate("c19-pending-limit", fmt.Sprintf("AccountSlots %d, GlobalSlots %d: %d pending in total (%s), at most %d allowed", cfg.AccountSlots, cfg.GlobalSlots, total, strings.Join(desc, ", "), lim))
		}
		o.Count("limits-case")
	}()
	select {
	case <-done:
	case <-time.After(60 * time.Second):
		o.Violate("c19-deadlock", "a pool with small pending limits does not answer within 60 s after runs of consecutive transactions from several accounts")
		o.EndCase("stuck", true)
		o.Close(nil)
		os.Exit(0)
	}
}

// c19Flood: concurrent submissions and head changes against a pool with tiny limits; invariants and limits at quiescence
func c19Flood(o *h.Out, rc *h.Rng) {
	defer func() {
		if p := recover(); p != nil {
			o.Violate("c19-panic", fmt.Sprintf("flood: panic: %v at %s", p, stackTop()))
		}
	}()
	accts := p19Accounts(5)
	for _, a := range accts {
		a.nonce = 0
		a.balance = 50_000_000
	}
	cfg := core.DefaultTxPoolConfig
	cfg.Journal = ""
	cfg.ReorgFrequency = time.Millisecond
	cfg.NoLocals = true
	cfg.AccountSlots, cfg.GlobalSlots, cfg.AccountQueue, cfg.GlobalQueue = 4, 12, 3, 8
	pool, ch, _ := newP19Pool(cfg, accts)
	defer pool.Stop()
	submitted := map[common.Hash]*types.Transaction{}
	var mu sync.Mutex
	var wg sync.WaitGroup
	done := make(chan struct{})
	for g := 0; g < 4; g++ {
		wg.Add(1)
		seed := rc.U64()
		go func() {
			defer wg.Done()
			defer func() { recover() }()
			lr := h.NewRng(seed)
			for i := 0; i < 60; i++ {
				a := accts[lr.Intn(len(accts))]
				tx := p19Tx(a, uint64(lr.Intn(14)), uint64(100+lr.Intn(60)), uint64(lr.Intn(100)))
				mu.Lock()
				submitted[tx.Hash()] = tx
				mu.Unlock()
				if lr.Bool() {
					pool.AddRemotes([]*types.Transaction{tx})
				} else {
					pool.AddLocal(tx)
				}
			}
		}()
	}
	go func() {
		lr := h.NewRng(rc.U64())
		for i := 0; i < 6; i++ {
			time.Sleep(2 * time.Millisecond)
			var inc types.Transactions
			for _, b := range accts {
				pend, _ := pool.ContentFrom(b.ia)
				sort.Slice(pend, func(i, j int) bool { return pend[i].Nonce() < pend[j].Nonce() })
				if len(pend) > 0 && pend[0].Nonce() == b.nonce && lr.Bool() {
					inc = append(inc, pend[0])
					b.nonce++
				}
			}
			ch.setHead(ch.newBlock(ch.CurrentBlock(), inc, accts, uint64(i)))
		}
		close(done)
	}()
	finished := make(chan struct{})
	go func() { wg.Wait(); <-done; close(finished) }()
	select {
	case <-finished:
	case <-time.After(20 * time.Second):
		o.Violate("c19-deadlock", "concurrent submissions and head changes did not finish within 20 s")
		return
	}
	p19Settle(pool, accts)
	time.Sleep(10 * time.Millisecond)
	p19Settle(pool, accts)
	p19Invariants(o, pool, accts, submitted, "flood")
	pending, queued := pool.Content()
	tp, tq := 0, 0
	for _, a := range accts {
		tp += len(pending[a.ia])
		tq += len(queued[a.ia])
		if uint64(len(queued[a.ia])) > cfg.AccountQueue {
			// the per-account cap is applied when an account's queue is promoted, not when a head change demotes
			// transactions into it: observed and counted, not a limit the pool promises at every quiescent point
			o.Count("account-queue-over-cap-after-demotion")
		}
	}
	if uint64(tq) > cfg.GlobalQueue {
		o.Violate("c19-global-queue-limit", fmt.Sprintf("%d queued, limit %d", tq, cfg.GlobalQueue))
	}
	if uint64(tp) > cfg.GlobalSlots {
		for _, a := range accts {
			if uint64(len(pending[a.ia])) > cfg.AccountSlots {
				o.Violate("c19-pending-limit", fmt.Sprintf("%d pending in total (limit %d) and account %x holds %d (guaranteed %d)", tp, cfg.GlobalSlots, a.addr.Bytes()[:4], len(pending[a.ia]), cfg.AccountSlots))
				break
			}
		}
	}
	o.Count(fmt.Sprintf("flood-pending:%d", tp/4*4))
	_ = rawdb.ReadHeadBlockHash
}
