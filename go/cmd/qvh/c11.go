package main

// Area c11: a crash at any point leaves a database the node can restart and continue from.
//
// The node runs over a recording key-value store.  While a block is appended (and while the head is switched to
// another branch) every write reaching the store is recorded in order: a direct put / delete is one step, a
// committed batch is one atomic step.  For every prefix of the recorded steps the database image "state before +
// prefix" is built, a fresh node is opened on it, and it must (1) open, (2) report a head whose state opens and
// whose ledger key spaces are exactly what its header commits to, (3) be able to continue: take the interrupted
// block (or finish the interrupted switch) and arrive at the same state as the node that did not crash.
// The write schedule itself (which step carries the ledger effects, where the head pointer moves) is what the
// model (QuaiVerif.Model.Crash) reasons about; the harness reports the recorded schedule in the model's terms.

import (
	"bytes"
	"fmt"
	"os"
	"strings"
	"sync"

	"verifharness/internal/h"

	"github.com/dominant-strategies/go-quai/common"
	"github.com/dominant-strategies/go-quai/core/rawdb"
	"github.com/dominant-strategies/go-quai/core/types"
	"github.com/dominant-strategies/go-quai/crypto/multiset"
	"github.com/dominant-strategies/go-quai/ethdb"
	"github.com/dominant-strategies/go-quai/ethdb/memorydb"
	"github.com/dominant-strategies/go-quai/log"
)

func init() { areas["c11"] = runC11 }

type kvOp struct {
	del bool
	k   string
	v   string
}

// recKV records the write steps that reach the store
type recKV struct {
	locKV
	mu    sync.Mutex
	on    bool
	steps [][]kvOp
}

func (r *recKV) record(ops []kvOp) {
	r.mu.Lock()
	if r.on && len(ops) > 0 {
		r.steps = append(r.steps, ops)
	}
	r.mu.Unlock()
}

func (r *recKV) Put(k, v []byte) error {
	r.record([]kvOp{{false, string(k), string(v)}})
	return r.locKV.Put(k, v)
}

func (r *recKV) Delete(k []byte) error {
	r.record([]kvOp{{true, string(k), ""}})
	return r.locKV.Delete(k)
}

func (r *recKV) NewBatch() ethdb.Batch { return &recBatch{Batch: r.locKV.NewBatch(), r: r} }

type recBatch struct {
	ethdb.Batch
	r   *recKV
	ops []kvOp
}

func (b *recBatch) Put(k, v []byte) error {
	b.ops = append(b.ops, kvOp{false, string(k), string(v)})
	return b.Batch.Put(k, v)
}

func (b *recBatch) Delete(k []byte) error {
	b.ops = append(b.ops, kvOp{true, string(k), ""})
	return b.Batch.Delete(k)
}

func (b *recBatch) Write() error {
	b.r.record(append([]kvOp{}, b.ops...))
	return b.Batch.Write()
}

func (b *recBatch) Reset() {
	b.ops = nil
	b.Batch.Reset()
}

func newRecDB() (ethdb.Database, *recKV) {
	r := &recKV{locKV: locKV{memorydb.New(log.Global), common.Location{0, 0}}}
	return rawdb.NewDatabase(r), r
}

func (r *recKV) start() { r.mu.Lock(); r.on, r.steps = true, nil; r.mu.Unlock() }
func (r *recKV) stop() [][]kvOp {
	r.mu.Lock()
	defer r.mu.Unlock()
	r.on = false
	return r.steps
}

// imageDB builds a fresh store holding image + the given steps
func imageDB(image map[string]string, steps [][]kvOp) ethdb.Database {
	kv := locKV{memorydb.New(log.Global), common.Location{0, 0}}
	for k, v := range image {
		kv.Put([]byte(k), []byte(v))
	}
	for _, st := range steps {
		for _, op := range st {
			if op.del {
				kv.Delete([]byte(op.k))
			} else {
				kv.Put([]byte(op.k), []byte(op.v))
			}
		}
	}
	return rawdb.NewDatabase(kv)
}

// stepClass describes a recorded step in the model's terms
func stepClass(st []kvOp) string {
	classes := map[string]bool{}
	for _, op := range st {
		c := keyClass(op.k)
		if op.k == "LastWorkObject" {
			c = "head"
		}
		classes[c] = true
	}
	ledger := classes["ut"] || classes["cl"] || classes["ms"] || classes["us"] || classes["ps"] || classes["cutxo"] || classes["sutxo"]
	switch {
	case ledger && classes["head"]:
		return "ledger+head"
	case ledger:
		return "ledger"
	case classes["head"] && len(st) == 1:
		return "head"
	case classes["head"]:
		return "head+other"
	case classes["canonical"] && len(st) == 1:
		return "canonical"
	case classes["trienode"] || classes["code"]:
		return "trie"
	}
	return "other"
}

// headConsistency: the reported head's state opens and the ledger key spaces are what its header commits to
func headConsistency(n *zoneNode) string {
	hd := n.hc.CurrentHeader()
	if hd == nil {
		return "no head"
	}
	if n.hc.IsGenesisHash(hd.Hash()) {
		if sc := scanLedger(n.db, n.loc); len(sc.hashes) != 0 {
			return fmt.Sprintf("head is genesis but the ledger holds %d entries", len(sc.hashes))
		}
		return ""
	}
	if rawdb.ReadHeadBlockHash(n.db) != hd.Hash() {
		return "head pointer in the database differs from the reported head"
	}
	if rawdb.ReadCanonicalHash(n.db, hd.NumberU64(common.ZONE_CTX)) != hd.Hash() {
		return "the reported head is not canonical at its height"
	}
	if _, err := n.hc.StateAt(hd.EVMRoot(), hd.EtxSetRoot(), hd.QuaiStateSize()); err != nil {
		return "head state does not open: " + err.Error()
	}
	sc := scanLedger(n.db, n.loc)
	ms := multiset.New()
	for _, x := range sc.hashes {
		ms.Add(x.Bytes())
	}
	// known finding (C06): entries a canonical block both spent and trimmed are removed twice from the commitment
	known := 0
	for i := uint64(1); i <= hd.NumberU64(common.ZONE_CTX); i++ {
		if b := n.hc.GetBlockByNumber(i); b != nil {
			for _, x := range doubleRemovals(n.db, b) {
				ms.Remove(x.Bytes())
				known++
			}
		}
	}
	if ms.Hash() != hd.UTXORoot() && os.Getenv("QVH_DEBUG") != "" {
		fmt.Fprintln(os.Stderr, "DBG c11 mismatch: head", hd.NumberArray(), "entries", len(sc.hashes), "known", known, "setsize", rawdb.ReadUTXOSetSize(n.db, hd.Hash()))
		for i := uint64(1); i <= hd.NumberU64(common.ZONE_CTX); i++ {
			if b := n.hc.GetBlockByNumber(i); b != nil {
				sp, _ := rawdb.ReadSpentUTXOs(n.db, b.Hash())
				tr, _ := rawdb.ReadTrimmedUTXOs(n.db, b.Hash())
				ck, _ := rawdb.ReadCreatedUTXOKeys(n.db, b.Hash())
				fmt.Fprintln(os.Stderr, "   blk", i, "spent", len(sp), "trimmed", len(tr), "created", len(ck), "dr", len(doubleRemovals(n.db, b)), "setsize", rawdb.ReadUTXOSetSize(n.db, b.Hash()))
				for ti, tx := range b.Transactions() {
					if tx.Type() == types.QiTxType {
						fmt.Fprintln(os.Stderr, "      qi tx", ti, "ins", len(tx.TxIn()), "outs", len(tx.TxOut()), "datalen", len(tx.Data()))
					} else if tx.Type() == types.ExternalTxType {
						fmt.Fprintln(os.Stderr, "      etx", ti, "type", tx.EtxType(), "value", tx.Value(), "toQi", tx.To().IsInQiLedgerScope())
					}
				}
			}
		}
	}
	if ms.Hash() != hd.UTXORoot() {
		return fmt.Sprintf("ledger key spaces (%d entries) are not what head %d commits to", len(sc.hashes), hd.NumberU64(common.ZONE_CTX))
	}
	if rawdb.ReadUTXOSetSize(n.db, hd.Hash())+uint64(known) != uint64(len(sc.hashes)) {
		return "stored set size of the head differs from the ledger"
	}
	return ""
}

func ledgerString(n *zoneNode) string {
	sc := scanLedger(n.db, n.loc)
	return strings.Join(sc.utxos, " ") + "|" + strings.Join(sc.lockups, " ") + "|" + n.hc.CurrentHeader().Hash().Hex()
}

func runC11(seed uint64, n int, outDir string, replay string) {
	o := h.NewOut(outDir, "c11")
	r := h.NewRng(seed)
	ans := func(s string) { o.Ans("impl", "%s", s) }
	_, allocs := cwAllAllocs()
	for c := 0; c < n; c++ {
		rc := r.Fork()
		o.NewCase()
		o.Op("newcase")
		ans("ok")
		rg := cwRegime{}
		cwSetParams(rg)
		func() {
			defer func() {
				if p := recover(); p != nil {
					o.Violate("c11-panic", fmt.Sprintf("panic: %v at %s", p, stackTop()))
					o.Pad("panic %v", p)
				}
			}()
			db, rec := newRecDB()
			w, err := newWorld(db, rc.Fork(), rg, zoneOpts{})
			if err != nil {
				panic(err)
			}
			defer safeStop(w.node)
			w.qiBoost = 1
			w.bigLogs = c%2 == 1 // every other history carries receipts with very large logs
			X := w.node
			for i, p := 0, 10+rc.Intn(8); i < p; i++ {
				if _, err := w.step(); err != nil {
					o.Violate("c07-own-block-rejected", fmt.Sprintf("history block %d: %v", i+1, err))
					return
				}
			}
			// probe: open a node on image+prefix, check it, let it continue with `resume`, compare with `want`
			var afterResume func(*zoneNode) error
			probe := func(what string, image map[string]string, steps [][]kvOp, i int, resume func(*zoneNode) error, want string) {
				var nd *zoneNode
				var err error
				func() {
					defer func() {
						if p := recover(); p != nil {
							err = fmt.Errorf("panic: %v", p)
						}
					}()
					nd, err = newZoneNode(imageDB(image, steps[:i]), zoneOpts{reopen: true, allocs: allocs})
				}()
				cls := "start"
				if i > 0 {
					cls = stepClass(steps[i-1])
				}
				o.Op("crash %s after=%s", what, cls)
				if err != nil {
					ans("broken")
					o.Violate("c11-node-does-not-open", fmt.Sprintf("%s: crash after step %d/%d (%s): the node does not open: %v", what, i, len(steps), cls, err))
					return
				}
				defer safeStop(nd)
				if msg := headConsistency(nd); msg != "" {
					ans("inconsistent")
					// does the node at least find its way out of it?
					outcome := "continuing works and ends in the right state"
					func() {
						defer func() {
							if p := recover(); p != nil {
								outcome = fmt.Sprintf("continuing panics: %v", p)
							}
						}()
						if err := resume(nd); err != nil {
							outcome = "continuing fails: " + err.Error()
						} else if ledgerString(nd) != want {
							outcome = "continuing 'succeeds' but ends in a different ledger than the node that did not crash"
						}
					}()
					o.Violate("c11-head-inconsistent:"+what+":after-"+cls, fmt.Sprintf("%s: crash after step %d/%d (%s): %s; %s", what, i, len(steps), cls, msg, outcome))
					return
				}
				var rerr error
				func() {
					defer func() {
						if p := recover(); p != nil {
							rerr = fmt.Errorf("panic: %v", p)
						}
					}()
					rerr = resume(nd)
				}()
				if rerr != nil {
					ans("stuck")
					o.Violate("c11-cannot-continue:"+what+":after-"+cls, fmt.Sprintf("%s: crash after step %d/%d (%s): the restarted node cannot continue: %v", what, i, len(steps), cls, rerr))
					return
				}
				if got := ledgerString(nd); got != want {
					ans("diverged")
					o.Violate("c11-diverged-after-restart:"+what+":after-"+cls, fmt.Sprintf("%s: crash after step %d/%d (%s): after continuing, the restarted node's ledger / head differ from the node that did not crash", what, i, len(steps), cls))
					return
				}
				if afterResume != nil {
					// and the chain goes on from there: a block built on top by somebody else (before the crash) is accepted
					var aerr error
					func() {
						defer func() {
							if p := recover(); p != nil {
								aerr = fmt.Errorf("panic: %v", p)
							}
						}()
						aerr = afterResume(nd)
					}()
					if aerr != nil {
						ans("stuck-later")
						o.Violate("c11-successor-refused-after-recovery:"+what+":after-"+cls, fmt.Sprintf("%s: crash after step %d/%d (%s): the restarted node reaches the right state, but refuses the next block of the chain: %v", what, i, len(steps), cls, aerr))
						return
					}
				}
				ans("ok")
				o.Count("probe:" + what + ":after-" + cls)
			}
			pick := func(total int, all bool) []int {
				var idx []int
				for i := 0; i <= total; i++ {
					if all || rc.Chance(25) || i == total {
						idx = append(idx, i)
					}
				}
				return idx
			}
			// (a) crash while appending a block
			trimmedSeen := false
			var prebuilt *cwStep
			for b, nb := 0, 2+rc.Intn(3); b < nb || (!trimmedSeen && b < nb+16); b++ {
				// (beyond the first few blocks the chain is extended until a block that trims old outputs has been crash-tested
				// too: trimming is the one ledger change a block makes that no transaction of it asks for)
				var st *cwStep
				var err error
				if prebuilt != nil {
					st, prebuilt = prebuilt, nil
				} else {
					st, err = w.build()
				}
				if err != nil {
					o.Violate("c07-own-block-rejected", fmt.Sprintf("%v", err))
					return
				}
				image := dbImage(db)
				rec.start()
				err = w.commit(st)
				steps := rec.stop()
				if err != nil {
					o.Violate("c07-own-block-rejected", fmt.Sprintf("%v", err))
					return
				}
				// the next block of the chain, built now on the node that did not crash
				afterResume = nil
				if nxt, nerr := w.build(); nerr == nil {
					prebuilt = nxt
					cb, ci := nxt.blk, nxt.inbound
					afterResume = func(nd *zoneNode) error { return nd.appendBlock(cb, ci) }
				}
				var sched []string
				for _, s := range steps {
					sched = append(sched, stepClass(s))
				}
				o.Count("append-schedule:" + strings.Join(compress(sched), ","))
				want := ledgerString(X)
				blk, inb := st.blk, st.inbound
				big := false
				for _, r := range rawdb.ReadRawReceipts(db, blk.Hash(), blk.NumberU64(common.ZONE_CTX)) {
					for _, l := range r.Logs {
						big = big || len(l.Data) > 100000
					}
				}
				if big {
					o.Count("append-crash-tested-block-has-large-receipts")
				}
				if tr, _ := rawdb.ReadTrimmedUTXOs(db, blk.Hash()); len(tr) > 0 {
					trimmedSeen = true
					o.Count("append-crash-tested-block-trims")
				} else if b >= nb && !big {
					continue
				}
				for _, i := range pick(len(steps), b == 0 || big) {
					probe("append", image, steps, i, func(nd *zoneNode) error {
						if nd.hc.CurrentHeader().Hash() == blk.Hash() {
							return nil
						}
						if err := nd.appendBlock(blk, inb); err != nil {
							if !strings.Contains(err.Error(), "already known") {
								return err
							}
							// the header had already been appended before the crash: only the head switch is outstanding
							// (core.Core treats ErrKnownBlock the same way)
							return nd.hc.SetCurrentHeader(blk)
						}
						return nil
					}, want)
				}
			}
			afterResume = nil
			// (b) crash while switching to another branch
			Y, err := newZoneNode(newMemDB(), zoneOpts{allocs: allocs})
			if err != nil {
				panic(err)
			}
			defer safeStop(Y)
			for _, s := range w.steps[:len(w.steps)-1-rc.Intn(2)] {
				if err := Y.appendBlock(s.blk, s.inbound); err != nil {
					o.Violate("c06-replica-rejects-block", fmt.Sprintf("%v", err))
					return
				}
			}
			wy := w.cloneFor(Y, rc.Fork())
			wy.qiBoost = 1
			var B []cwStep
			for i, nb := 0, 1+rc.Intn(3); i < nb; i++ {
				keysOf := func() map[string]bool {
					m := map[string]bool{}
					it := Y.db.NewIterator(rawdb.UtxoPrefix, nil)
					for it.Next() {
						if len(it.Key()) == rawdb.UtxoKeyLength {
							m[string(it.Key())] = true
						}
					}
					it.Release()
					return m
				}
				beforeKeys := keysOf()
				st, err := wy.step()
				if err == nil && os.Getenv("QVH_DEBUG") != "" {
					after := keysOf()
					exp := map[string]bool{}
					for k := range beforeKeys {
						exp[k] = true
					}
					ck, _ := rawdb.ReadCreatedUTXOKeys(Y.db, st.blk.Hash())
					for _, k := range ck {
						if len(k) >= rawdb.UtxoKeyLength {
							exp[string(k[:rawdb.UtxoKeyLength])] = true
						}
					}
					sp, _ := rawdb.ReadSpentUTXOs(Y.db, st.blk.Hash())
					for _, x := range sp {
						delete(exp, string(rawdb.UtxoKey(x.TxHash, x.Index)))
					}
					tr, _ := rawdb.ReadTrimmedUTXOs(Y.db, st.blk.Hash())
					for _, x := range tr {
						delete(exp, string(rawdb.UtxoKey(x.TxHash, x.Index)))
					}
					seenCK := map[string]int{}
					for _, k := range ck {
						if len(k) >= rawdb.UtxoKeyLength {
							kk := string(k[:rawdb.UtxoKeyLength])
							seenCK[kk]++
							if seenCK[kk] > 1 || beforeKeys[kk] {
								txh, idx, _ := rawdb.ReverseUtxoKey(k[:rawdb.UtxoKeyLength])
								who := "?"
								for ti, tx := range st.blk.Transactions() {
									if tx.Hash() == txh || (tx.Type() == types.ExternalTxType && tx.OriginatingTxHash() == txh) {
										who = fmt.Sprintf("tx %d type %d etxtype %d", ti, tx.Type(), tx.EtxType())
									}
								}
								fmt.Fprintf(os.Stderr, "DBG Y %v: created key %x:%d again (existed before the block: %v) by %s\n", st.blk.NumberArray(), txh.Bytes()[:6], idx, beforeKeys[kk], who)
							}
						}
					}
					for k := range exp {
						if !after[k] {
							fmt.Fprintf(os.Stderr, "DBG Y %v: expected but not in DB: %x (created-by-block=%v)\n", st.blk.NumberArray(), []byte(k)[2:10], !beforeKeys[k])
						}
					}
					for k := range after {
						if !exp[k] {
							fmt.Fprintf(os.Stderr, "DBG Y %v: in DB but not expected: %x\n", st.blk.NumberArray(), []byte(k)[2:10])
						}
					}
				}
				if err != nil {
					o.Violate("c07-own-block-rejected", fmt.Sprintf("branch B: %v", err))
					return
				}
				B = append(B, *st)
				if os.Getenv("QVH_DEBUG") != "" {
					sc := scanLedger(Y.db, Y.loc)
					fmt.Fprintln(os.Stderr, "DBG Y block", st.blk.NumberArray(), "rootok", sc.root() == st.blk.UTXORoot(), "setsize", rawdb.ReadUTXOSetSize(Y.db, st.blk.Hash()), "entries", len(sc.hashes), "dr", len(doubleRemovals(Y.db, st.blk)), "msg:", headConsistency(Y))
				}
			}
			for _, s := range B {
				if err := X.addSide(s.blk, s.inbound); err != nil {
					o.Violate("c10-side-block-refused", fmt.Sprintf("%v", err))
					return
				}
			}
			image := dbImage(db)
			rec.start()
			err = X.hc.SetCurrentHeader(B[len(B)-1].blk)
			steps := rec.stop()
			if err != nil {
				o.Violate("c10-switch-failed", fmt.Sprintf("%v", err))
				return
			}
			var sched []string
			for _, s := range steps {
				sched = append(sched, stepClass(s))
			}
			o.Count("reorg-schedule:" + strings.Join(compress(sched), ","))
			want := ledgerString(X)
			if os.Getenv("QVH_DEBUG") != "" {
				sx, sy := scanLedger(X.db, X.loc), scanLedger(Y.db, Y.loc)
				mx := map[string]bool{}
				for _, u := range sx.utxos {
					mx[u] = true
				}
				my := map[string]bool{}
				for _, u := range sy.utxos {
					my[u] = true
					if !mx[u] {
						fmt.Fprintln(os.Stderr, "DBG reorg: only in Y:", u)
					}
				}
				for _, u := range sx.utxos {
					if !my[u] {
						fmt.Fprintln(os.Stderr, "DBG reorg: only in X:", u)
					}
				}
				fmt.Fprintln(os.Stderr, "DBG reorg: X utxos", len(sx.utxos), "Y utxos", len(sy.utxos), "lockups", len(sx.lockups), len(sy.lockups), "abandoned", len(w.steps)-len(Y.hc.GetBlockByHash(B[0].blk.ParentHash(common.ZONE_CTX)).NumberArray())+0, "B", len(B))
			}
			tip := B[len(B)-1].blk
			for _, i := range pick(len(steps), c == 0) {
				probe("reorg", image, steps, i, func(nd *zoneNode) error {
					if nd.hc.CurrentHeader().Hash() == tip.Hash() {
						return nil
					}
					if err := nd.hc.SetCurrentHeader(tip); err != nil {
						return err
					}
					if nd.hc.CurrentHeader().Hash() != tip.Hash() {
						return fmt.Errorf("SetCurrentHeader returned nil but the head is %d, not the requested tip %d", nd.hc.CurrentHeader().NumberU64(common.ZONE_CTX), tip.NumberU64(common.ZONE_CTX))
					}
					return nil
				}, want)
			}
			_ = bytes.Equal
			_ = types.QiTxType
		}()
		o.EndCase(fmt.Sprint(rc.U64()), true)
	}
	o.Close(nil)
}

// compress run-length encodes a schedule
func compress(l []string) (out []string) {
	for i := 0; i < len(l); {
		j := i
		for j < len(l) && l[j] == l[i] {
			j++
		}
		if j-i > 1 {
			out = append(out, fmt.Sprintf("%s*%d", l[i], j-i))
		} else {
			out = append(out, l[i])
		}
		i = j
	}
	return
}
