package main

// codec area, larger objects (C14): a whole block (header + body with transactions, outbound ETXs, work shares,
// manifest, interlink), the pending-ETX record a zone hands to its dominant chain, termini, a stored receipt.
// Round trip: decode(encode(x)) re-encodes to the same bytes, keeps every hash and every root.

import (
	"bytes"
	"fmt"
	"github.com/dominant-strategies/go-quai/core/rawdb"
	"github.com/dominant-strategies/go-quai/log"
	"math/big"

	"verifharness/internal/h"

	"github.com/dominant-strategies/go-quai/common"
	"github.com/dominant-strategies/go-quai/core/types"
	"google.golang.org/protobuf/proto"
)

func codecGenWoHeader(rc *h.Rng, loc common.Location) *types.WorkObjectHeader {
	wh := types.NewWorkObjectHeader(cHash(rc), cHash(rc), cBig(rc), cBig(rc), big.NewInt(int64(rc.Intn(1000))), cHash(rc), types.EncodeNonce(cU64(rc)), uint8(rc.Intn(4)), cU64(rc), loc, cAddr(rc, loc), rc.Bytes(1+rc.Intn(60)), nil,
		types.NewPowShareDiffAndCount(nil, nil, nil), types.NewPowShareDiffAndCount(nil, nil, nil), nil, nil, nil)
	wh.SetMixHash(cHash(rc))
	return wh
}

func codecBlock(o *h.Out, rc *h.Rng, ans func(string)) {
	o.Op("note")
	ans("ok")
	loc := common.Location{byte(rc.Intn(2)), byte(rc.Intn(2))}
	hd := types.EmptyHeader()
	fuzzSetters(rc, hd, loc)
	body := types.EmptyWorkObjectBody()
	body.SetHeader(hd)
	var txs, etxs types.Transactions
	for i, n := 0, rc.Intn(4); i < n; i++ {
		p := genTxParams(rc)
		p.loc = loc
		if p.kind == 0 {
			continue // (a Quai transaction's wire form depends on the signer's zone; covered by the tx cases)
		}
		tx := p.build()
		if tx.Type() == types.ExternalTxType {
			etxs = append(etxs, tx)
		}
		txs = append(txs, tx)
	}
	body.SetTransactions(txs)
	body.SetOutboundEtxs(etxs)
	var uncles []*types.WorkObjectHeader
	for i, n := 0, rc.Intn(3); i < n; i++ {
		uncles = append(uncles, codecGenWoHeader(rc, loc))
	}
	body.SetUncles(uncles)
	var man types.BlockManifest
	for i, n := 0, rc.Intn(4); i < n; i++ {
		man = append(man, cHash(rc))
	}
	body.SetManifest(man)
	var il common.Hashes
	for i, n := 0, rc.Intn(3); i < n; i++ {
		il = append(il, cHash(rc))
	}
	body.SetInterlinkHashes(il)
	wh := codecGenWoHeader(rc, loc)
	wh.SetHeaderHash(hd.Hash())
	wo := types.NewWorkObject(wh, body, nil)
	pb, err := wo.ProtoEncode(types.BlockObject)
	if err != nil {
		o.Count("block-encode-err")
		return
	}
	data, _ := proto.Marshal(pb)
	fresh := new(types.ProtoWorkObject)
	if err := proto.Unmarshal(data, fresh); err != nil {
		o.Violate("c14-unmarshal-own-bytes:block", err.Error())
		return
	}
	wo2 := new(types.WorkObject)
	if err := wo2.ProtoDecode(fresh, loc, types.BlockObject); err != nil {
		o.Violate("c14-decode-own-encoding:block", err.Error())
		return
	}
	if wo.Hash() != wo2.Hash() || wo.SealHash() != wo2.SealHash() || wo.Header().Hash() != wo2.Header().Hash() {
		o.Violate("c14-hash-changes:block", "block / seal / header hash changes over the wire round trip")
	}
	if len(wo2.Transactions()) != len(txs) || len(wo2.OutboundEtxs()) != len(etxs) || len(wo2.Uncles()) != len(uncles) || len(wo2.Manifest()) != len(man) || len(wo2.InterlinkHashes()) != len(il) {
		o.Violate("c14-roundtrip-changes-object:block", fmt.Sprintf("body sizes %d/%d/%d/%d/%d become %d/%d/%d/%d/%d", len(txs), len(etxs), len(uncles), len(man), len(il),
			len(wo2.Transactions()), len(wo2.OutboundEtxs()), len(wo2.Uncles()), len(wo2.Manifest()), len(wo2.InterlinkHashes())))
		return
	}
	for i := range txs {
		if txs[i].Hash() != wo2.Transactions()[i].Hash() {
			o.Violate("c14-roundtrip-changes-object:block", fmt.Sprintf("transaction %d of the body has another hash after the round trip", i))
		}
	}
	for i := range uncles {
		if uncles[i].Hash() != wo2.Uncles()[i].Hash() {
			o.Violate("c14-roundtrip-changes-object:block", fmt.Sprintf("work share %d of the body has another hash after the round trip", i))
		}
	}
	for i := range man {
		if man[i] != wo2.Manifest()[i] {
			o.Violate("c14-roundtrip-changes-object:block", "manifest differs after the round trip")
		}
	}
	pb2, err := wo2.ProtoEncode(types.BlockObject)
	if err == nil {
		data2, _ := proto.Marshal(pb2)
		if !bytes.Equal(data, data2) {
			o.Violate("c14-reencode-differs:block", "re-encoding the decoded block gives other bytes")
		}
	}
	o.Count("block-roundtrip")
}

func codecPendingEtxs(o *h.Out, rc *h.Rng, ans func(string)) {
	o.Op("note")
	ans("ok")
	loc := common.Location{byte(rc.Intn(2)), byte(rc.Intn(2))}
	var etxs types.Transactions
	for i, n := 0, rc.Intn(5); i < n; i++ {
		p := genTxParams(rc)
		p.kind, p.loc = 1, loc
		if p.to == nil {
			a := cAddr(rc, loc)
			p.to = &a
		}
		etxs = append(etxs, p.build())
	}
	hd := types.EmptyHeader()
	fuzzSetters(rc, hd, loc)
	body := types.EmptyWorkObjectBody()
	body.SetHeader(hd)
	wh := codecGenWoHeader(rc, loc)
	wh.SetHeaderHash(hd.Hash())
	wo := types.NewWorkObject(wh, body, nil)
	pe := types.PendingEtxs{Header: wo.ConvertToPEtxView(), OutboundEtxs: etxs}
	pb, err := pe.ProtoEncode()
	if err != nil {
		o.Count("petxs-encode-err")
		return
	}
	data, _ := proto.Marshal(pb)
	fresh := new(types.ProtoPendingEtxs)
	if err := proto.Unmarshal(data, fresh); err != nil {
		o.Violate("c14-unmarshal-own-bytes:petxs", err.Error())
		return
	}
	pe2 := new(types.PendingEtxs)
	if err := pe2.ProtoDecode(fresh, loc); err != nil {
		o.Violate("c14-decode-own-encoding:petxs", err.Error())
		return
	}
	if len(pe2.OutboundEtxs) != len(etxs) || pe2.Header.Hash() != pe.Header.Hash() {
		o.Violate("c14-roundtrip-changes-object:petxs", "pending ETX record: header hash or ETX count changes over the round trip")
		return
	}
	for i := range etxs {
		if etxs[i].Hash() != pe2.OutboundEtxs[i].Hash() {
			o.Violate("c14-roundtrip-changes-object:petxs", fmt.Sprintf("ETX %d has another hash after the round trip", i))
		}
	}
	pb2, err := pe2.ProtoEncode()
	if err == nil {
		data2, _ := proto.Marshal(pb2)
		if !bytes.Equal(data, data2) {
			o.Violate("c14-reencode-differs:petxs", "re-encoding the decoded pending-ETX record gives other bytes")
		}
	}
	o.Count("petxs-roundtrip")
}

func codecTermini(o *h.Out, rc *h.Rng, ans func(string)) {
	o.Op("note")
	ans("ok")
	t := types.EmptyTermini()
	for i := range t.DomTermini() {
		t.SetDomTerminiAtIndex(cHash(rc), i)
	}
	for i := range t.SubTermini() {
		if rc.Chance(80) {
			t.SetSubTerminiAtIndex(cHash(rc), i)
		}
	}
	pb := t.ProtoEncode()
	data, _ := proto.Marshal(pb)
	fresh := new(types.ProtoTermini)
	proto.Unmarshal(data, fresh)
	t2 := new(types.Termini)
	if err := t2.ProtoDecode(fresh); err != nil {
		o.Violate("c14-decode-own-encoding:termini", err.Error())
		return
	}
	for i := range t.DomTermini() {
		if t.DomTerminiAtIndex(i) != t2.DomTerminiAtIndex(i) {
			o.Violate("c14-roundtrip-changes-object:termini", fmt.Sprintf("dom terminus %d differs after the round trip", i))
		}
	}
	for i := range t.SubTermini() {
		if t.SubTerminiAtIndex(i) != t2.SubTerminiAtIndex(i) {
			o.Violate("c14-roundtrip-changes-object:termini", fmt.Sprintf("sub terminus %d differs after the round trip", i))
		}
	}
	data2, _ := proto.Marshal(t2.ProtoEncode())
	if !bytes.Equal(data, data2) {
		o.Violate("c14-reencode-differs:termini", "re-encoding the decoded termini gives other bytes")
	}
	o.Count("termini-roundtrip")
}

// codecReceipts: a block's receipts in their storage form (status, cumulative / used gas, tx hash, contract address,
// logs with topics and data, outbound ETXs) through ReceiptsForStorage proto and through rawdb Write / ReadRawReceipts:
// every stored field comes back, the bloom is recomputed from the logs, re-encoding gives the same bytes.
func codecReceipts(o *h.Out, rc *h.Rng, ans func(string)) {
	o.Op("note")
	ans("ok")
	loc := common.Location{0, 0}
	var rs types.Receipts
	cum := uint64(0)
	for i, n := 0, rc.Intn(5); i < n; i++ {
		used := 21000 + uint64(rc.Intn(1_000_000))
		cum += used
		r := &types.Receipt{Status: uint64(rc.Intn(2)), CumulativeGasUsed: cum, GasUsed: used, TxHash: cHash(rc)}
		if rc.Chance(40) {
			r.ContractAddress = cAddr(rc, loc)
		}
		for j, m := 0, rc.Intn(4); j < m; j++ {
			lg := &types.Log{Address: cAddr(rc, loc), Data: rc.Bytes(rc.Intn(70))}
			for t, k := 0, rc.Intn(5); t < k; t++ {
				lg.Topics = append(lg.Topics, cHash(rc))
			}
			r.Logs = append(r.Logs, lg)
		}
		for j, m := 0, rc.Intn(4); j < m; j++ {
			p := genTxParams(rc)
			p.kind, p.loc = 1, loc
			if p.to == nil {
				a := cAddr(rc, loc)
				p.to = &a
			}
			r.OutboundEtxs = append(r.OutboundEtxs, p.build())
		}
		r.Bloom = types.CreateBloom(types.Receipts{r})
		rs = append(rs, r)
	}
	same := func(where string, got types.Receipts) {
		if len(got) != len(rs) {
			o.Violate("c14-roundtrip-changes-object:receipts", fmt.Sprintf("%s: %d receipts stored, %d read", where, len(rs), len(got)))
			return
		}
		for i, a := range rs {
			b := got[i]
			switch {
			case a.Status != b.Status || a.CumulativeGasUsed != b.CumulativeGasUsed || a.GasUsed != b.GasUsed || a.TxHash != b.TxHash:
				o.Violate("c14-roundtrip-changes-object:receipts", fmt.Sprintf("%s: receipt %d: status / gas / tx hash differ (%d %d %d %x vs %d %d %d %x)", where, i, a.Status, a.CumulativeGasUsed, a.GasUsed, a.TxHash[:4], b.Status, b.CumulativeGasUsed, b.GasUsed, b.TxHash[:4]))
			case !bytes.Equal(a.ContractAddress.Bytes(), b.ContractAddress.Bytes()):
				o.Violate("c14-roundtrip-changes-object:receipts", fmt.Sprintf("%s: receipt %d: contract address %x vs %x", where, i, a.ContractAddress.Bytes(), b.ContractAddress.Bytes()))
			case a.Bloom != b.Bloom:
				o.Violate("c14-roundtrip-changes-object:receipts", fmt.Sprintf("%s: receipt %d: the bloom filter differs", where, i))
			case len(a.Logs) != len(b.Logs) || len(a.OutboundEtxs) != len(b.OutboundEtxs):
				o.Violate("c14-roundtrip-changes-object:receipts", fmt.Sprintf("%s: receipt %d: %d logs %d ETXs stored, %d / %d read", where, i, len(a.Logs), len(a.OutboundEtxs), len(b.Logs), len(b.OutboundEtxs)))
			default:
				for j := range a.Logs {
					x, y := a.Logs[j], b.Logs[j]
					ok := bytes.Equal(x.Address.Bytes(), y.Address.Bytes()) && bytes.Equal(x.Data, y.Data) && len(x.Topics) == len(y.Topics)
					for t := 0; ok && t < len(x.Topics); t++ {
						ok = x.Topics[t] == y.Topics[t]
					}
					if !ok {
						o.Violate("c14-roundtrip-changes-object:receipts", fmt.Sprintf("%s: receipt %d log %d differs (address / topics / data)", where, i, j))
					}
				}
				for j := range a.OutboundEtxs {
					if a.OutboundEtxs[j].Hash() != b.OutboundEtxs[j].Hash() {
						o.Violate("c14-roundtrip-changes-object:receipts", fmt.Sprintf("%s: receipt %d outbound ETX %d has another hash", where, i, j))
					}
				}
			}
		}
	}
	store := make(types.ReceiptsForStorage, len(rs))
	for i, r := range rs {
		store[i] = (*types.ReceiptForStorage)(r)
	}
	pb, err := store.ProtoEncode()
	if err != nil {
		o.Count("receipts-encode-err")
		return
	}
	data, _ := proto.Marshal(pb)
	fresh := new(types.ProtoReceiptsForStorage)
	if err := proto.Unmarshal(data, fresh); err != nil {
		o.Violate("c14-unmarshal-own-bytes:receipts", err.Error())
		return
	}
	back := new(types.ReceiptsForStorage)
	if err := back.ProtoDecode(fresh, loc); err != nil {
		o.Violate("c14-decode-own-encoding:receipts", err.Error())
		return
	}
	got := make(types.Receipts, len(*back))
	for i, r := range *back {
		got[i] = (*types.Receipt)(r)
	}
	same("proto", got)
	if pb2, err := back.ProtoEncode(); err == nil {
		if data2, _ := proto.Marshal(pb2); !bytes.Equal(data, data2) {
			o.Violate("c14-reencode-differs:receipts", "re-encoding the decoded receipts gives other bytes")
		}
	}
	db := rawdb.NewMemoryDatabase(log.Global)
	bh, num := cHash(rc), uint64(rc.Intn(1000))
	rawdb.WriteReceipts(db, bh, num, rs)
	if len(rs) > 0 {
		same("rawdb", rawdb.ReadRawReceipts(db, bh, num))
	}
	o.Count("receipts-roundtrip")
}

// codecRollup: the roll-up of pending ETXs a region hands to prime, through proto and rawdb
func codecRollup(o *h.Out, rc *h.Rng, ans func(string)) {
	o.Op("note")
	ans("ok")
	loc := common.Location{byte(rc.Intn(2)), byte(rc.Intn(2))}
	etxs := types.Transactions{}
	for i, n := 0, rc.Intn(6); i < n; i++ {
		p := genTxParams(rc)
		p.kind, p.loc = 1, loc
		if p.to == nil {
			a := cAddr(rc, loc)
			p.to = &a
		}
		etxs = append(etxs, p.build())
	}
	hd := types.EmptyHeader()
	fuzzSetters(rc, hd, loc)
	body := types.EmptyWorkObjectBody()
	body.SetHeader(hd)
	wh := codecGenWoHeader(rc, loc)
	wh.SetHeaderHash(hd.Hash())
	wo := types.NewWorkObject(wh, body, nil)
	ru := types.PendingEtxsRollup{Header: wo.ConvertToPEtxView(), EtxsRollup: etxs}
	pb, err := ru.ProtoEncode()
	if err != nil {
		o.Count("rollup-encode-err")
		return
	}
	data, _ := proto.Marshal(pb)
	fresh := new(types.ProtoPendingEtxsRollup)
	if err := proto.Unmarshal(data, fresh); err != nil {
		o.Violate("c14-unmarshal-own-bytes:rollup", err.Error())
		return
	}
	ru2 := new(types.PendingEtxsRollup)
	if err := ru2.ProtoDecode(fresh, loc); err != nil {
		o.Violate("c14-decode-own-encoding:rollup", err.Error())
		return
	}
	cmp := func(where string, x *types.PendingEtxsRollup) {
		if x == nil || x.Header == nil {
			o.Violate("c14-roundtrip-changes-object:rollup", where+": the roll-up does not come back")
			return
		}
		if len(x.EtxsRollup) != len(etxs) || x.Header.Hash() != ru.Header.Hash() {
			o.Violate("c14-roundtrip-changes-object:rollup", fmt.Sprintf("%s: header hash or ETX count changes (%d stored, %d read)", where, len(etxs), len(x.EtxsRollup)))
			return
		}
		for i := range etxs {
			if etxs[i].Hash() != x.EtxsRollup[i].Hash() {
				o.Violate("c14-roundtrip-changes-object:rollup", fmt.Sprintf("%s: ETX %d has another hash after the round trip", where, i))
			}
		}
	}
	cmp("proto", ru2)
	if pb2, err := ru2.ProtoEncode(); err == nil {
		if data2, _ := proto.Marshal(pb2); !bytes.Equal(data, data2) {
			o.Violate("c14-reencode-differs:rollup", "re-encoding the decoded roll-up gives other bytes")
		}
	}
	db := rawdb.NewMemoryDatabase(log.Global)
	rawdb.WritePendingEtxsRollup(db, ru)
	cmp("rawdb", rawdb.ReadPendingEtxsRollup(db, ru.Header.Hash()))
	o.Count("rollup-roundtrip")
}
