package main

// codec area, larger objects (C14): a whole block (header + body with transactions, outbound ETXs, work shares,
// manifest, interlink), the pending-ETX record a zone hands to its dominant chain, termini, a stored receipt.
// Round trip: decode(encode(x)) re-encodes to the same bytes, keeps every hash and every root.

import (
	"bytes"
	"fmt"
	"math/big"

	"verifharness/internal/h"

	"github.com/dominant-strategies/go-quai/common"
	"github.com/dominant-strategies/go-quai/core/types"
	"google.golang.org/protobuf/proto"
)

func codecGenWoHeader(rc *h.Rng, loc common.Location) *types.WorkObjectHeader {
	wh := types.NewWorkObjectHeader(cHash(rc), cHash(rc), cBig(rc), cBig(rc), big.NewInt(int64(rc.Intn(1000))), cHash(rc), types.EncodeNonce(cU64(rc)), uint8(rc.Intn(4)), cU64(rc), loc, cAddr(rc, loc), rc.Bytes(1+rc.Intn(60)), nil,
		types.NewPowShareDiffAndCount(nil, nil, nil), types.NewPowShareDiffAndCount(nil, nil, nil), nil, nil, nil)
	wh.SetMixHash(cHash(rc))
	return wh
}

func codecBlock(o *h.Out, rc *h.Rng, ans func(string)) {
	o.Op("note")
	ans("ok")
	loc := common.Location{byte(rc.Intn(2)), byte(rc.Intn(2))}
	hd := types.EmptyHeader()
	fuzzSetters(rc, hd, loc)
	body := types.EmptyWorkObjectBody()
	body.SetHeader(hd)
	var txs, etxs types.Transactions
	for i, n := 0, rc.Intn(4); i < n; i++ {
		p := genTxParams(rc)
		p.loc = loc
		if p.kind == 0 {
			continue // (a Quai transaction's wire form depends on the signer's zone; covered by the tx cases)
		}
		tx := p.build()
		if tx.Type() == types.ExternalTxType {
			etxs = append(etxs, tx)
		}
		txs = append(txs, tx)
	}
	body.SetTransactions(txs)
	body.SetOutboundEtxs(etxs)
	var uncles []*types.WorkObjectHeader
	for i, n := 0, rc.Intn(3); i < n; i++ {
		uncles = append(uncles, codecGenWoHeader(rc, loc))
	}
	body.SetUncles(uncles)
	var man types.BlockManifest
	for i, n := 0, rc.Intn(4); i < n; i++ {
		man = append(man, cHash(rc))
	}
	body.SetManifest(man)
	var il common.Hashes
	for i, n := 0, rc.Intn(3); i < n; i++ {
		il = append(il, cHash(rc))
	}
	body.SetInterlinkHashes(il)
	wh := codecGenWoHeader(rc, loc)
	wh.SetHeaderHash(hd.Hash())
	wo := types.NewWorkObject(wh, body, nil)
	pb, err := wo.ProtoEncode(types.BlockObject)
	if err != nil {
		o.Count("block-encode-err")
		return
	}
	data, _ := proto.Marshal(pb)
	fresh := new(types.ProtoWorkObject)
	if err := proto.Unmarshal(data, fresh); err != nil {
		o.Violate("c14-unmarshal-own-bytes:block", err.Error())
		return
	}
	wo2 := new(types.WorkObject)
	if err := wo2.ProtoDecode(fresh, loc, types.BlockObject); err != nil {
		o.Violate("c14-decode-own-encoding:block", err.Error())
		return
	}
	if wo.Hash() != wo2.Hash() || wo.SealHash() != wo2.SealHash() || wo.Header().Hash() != wo2.Header().Hash() {
		o.Violate("c14-hash-changes:block", "block / seal / header hash changes over the wire round trip")
	}
	if len(wo2.Transactions()) != len(txs) || len(wo2.OutboundEtxs()) != len(etxs) || len(wo2.Uncles()) != len(uncles) || len(wo2.Manifest()) != len(man) || len(wo2.InterlinkHashes()) != len(il) {
		o.Violate("c14-roundtrip-changes-object:block", fmt.Sprintf("body sizes %d/%d/%d/%d/%d become %d/%d/%d/%d/%d", len(txs), len(etxs), len(uncles), len(man), len(il),
			len(wo2.Transactions()), len(wo2.OutboundEtxs()), len(wo2.Uncles()), len(wo2.Manifest()), len(wo2.InterlinkHashes())))
		return
	}
	for i := range txs {
		if txs[i].Hash() != wo2.Transactions()[i].Hash() {
			o.Violate("c14-roundtrip-changes-object:block", fmt.Sprintf("transaction %d of the body has another hash after the round trip", i))
		}
	}
	for i := range uncles {
		if uncles[i].Hash() != wo2.Uncles()[i].Hash() {
			o.Violate("c14-roundtrip-changes-object:block", fmt.Sprintf("work share %d of the body has another hash after the round trip", i))
		}
	}
	for i := range man {
		if man[i] != wo2.Manifest()[i] {
			o.Violate("c14-roundtrip-changes-object:block", "manifest differs after the round trip")
		}
	}
	pb2, err := wo2.ProtoEncode(types.BlockObject)
	if err == nil {
		data2, _ := proto.Marshal(pb2)
		if !bytes.Equal(data, data2) {
			o.Violate("c14-reencode-differs:block", "re-encoding the decoded block gives other bytes")
		}
	}
	o.Count("block-roundtrip")
}

func codecPendingEtxs(o *h.Out, rc *h.Rng, ans func(string)) {
	o.Op("note")
	ans("ok")
	loc := common.Location{byte(rc.Intn(2)), byte(rc.Intn(2))}
	var etxs types.Transactions
	for i, n := 0, rc.Intn(5); i < n; i++ {
		p := genTxParams(rc)
		p.kind, p.loc = 1, loc
		if p.to == nil {
			a := cAddr(rc, loc)
			p.to = &a
		}
		etxs = append(etxs, p.build())
	}
	hd := types.EmptyHeader()
	fuzzSetters(rc, hd, loc)
	body := types.EmptyWorkObjectBody()
	body.SetHeader(hd)
	wh := codecGenWoHeader(rc, loc)
	wh.SetHeaderHash(hd.Hash())
	wo := types.NewWorkObject(wh, body, nil)
	pe := types.PendingEtxs{Header: wo.ConvertToPEtxView(), OutboundEtxs: etxs}
	pb, err := pe.ProtoEncode()
	if err != nil {
		o.Count("petxs-encode-err")
		return
	}
	data, _ := proto.Marshal(pb)
	fresh := new(types.ProtoPendingEtxs)
	if err := proto.Unmarshal(data, fresh); err != nil {
		o.Violate("c14-unmarshal-own-bytes:petxs", err.Error())
		return
	}
	pe2 := new(types.PendingEtxs)
	if err := pe2.ProtoDecode(fresh, loc); err != nil {
		o.Violate("c14-decode-own-encoding:petxs", err.Error())
		return
	}
	if len(pe2.OutboundEtxs) != len(etxs) || pe2.Header.Hash() != pe.Header.Hash() {
		o.Violate("c14-roundtrip-changes-object:petxs", "pending ETX record: header hash or ETX count changes over the round trip")
		return
	}
	for i := range etxs {
		if etxs[i].Hash() != pe2.OutboundEtxs[i].Hash() {
			o.Violate("c14-roundtrip-changes-object:petxs", fmt.Sprintf("ETX %d has another hash after the round trip", i))
		}
	}
	pb2, err := pe2.ProtoEncode()
	if err == nil {
		data2, _ := proto.Marshal(pb2)
		if !bytes.Equal(data, data2) {
			o.Violate("c14-reencode-differs:petxs", "re-encoding the decoded pending-ETX record gives other bytes")
		}
	}
	o.Count("petxs-roundtrip")
}

func codecTermini(o *h.Out, rc *h.Rng, ans func(string)) {
	o.Op("note")
	ans("ok")
	t := types.EmptyTermini()
	for i := range t.DomTermini() {
		t.SetDomTerminiAtIndex(cHash(rc), i)
	}
	for i := range t.SubTermini() {
		if rc.Chance(80) {
			t.SetSubTerminiAtIndex(cHash(rc), i)
		}
	}
	pb := t.ProtoEncode()
	data, _ := proto.Marshal(pb)
	fresh := new(types.ProtoTermini)
	proto.Unmarshal(data, fresh)
	t2 := new(types.Termini)
	if err := t2.ProtoDecode(fresh); err != nil {
		o.Violate("c14-decode-own-encoding:termini", err.Error())
		return
	}
	for i := range t.DomTermini() {
		if t.DomTerminiAtIndex(i) != t2.DomTerminiAtIndex(i) {
			o.Violate("c14-roundtrip-changes-object:termini", fmt.Sprintf("dom terminus %d differs after the round trip", i))
		}
	}
	for i := range t.SubTermini() {
		if t.SubTerminiAtIndex(i) != t2.SubTerminiAtIndex(i) {
			o.Violate("c14-roundtrip-changes-object:termini", fmt.Sprintf("sub terminus %d differs after the round trip", i))
		}
	}
	data2, _ := proto.Marshal(t2.ProtoEncode())
	if !bytes.Equal(data, data2) {
		o.Violate("c14-reencode-differs:termini", "re-encoding the decoded termini gives other bytes")
	}
	o.Count("termini-roundtrip")
}
