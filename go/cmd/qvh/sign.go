package main

// Area sign (C03): real keys; Sender() on signed transactions, on every single-field mutation, on
// every chain-id pairing (incl. zero), with boundary signature values, through the sender cache.

import (
	"errors"
	"fmt"
	"math/big"

	"verifharness/internal/h"

	"github.com/dominant-strategies/go-quai/common"
	"github.com/dominant-strategies/go-quai/core/types"
	"github.com/dominant-strategies/go-quai/crypto"
)

func init() { areas["sign"] = runSign }

var secpN, _ = new(big.Int).SetString("FFFFFFFFFFFFFFFFFFFFFFFFFFFFFFFEBAAEDCE6AF48A03BBFD25E8CD0364141", 16)

func sgBoundary(rc *h.Rng) *big.Int {
	half := new(big.Int).Rsh(secpN, 1)
	opts := []*big.Int{big.NewInt(0), big.NewInt(1), half, new(big.Int).Add(half, big.NewInt(1)), new(big.Int).Sub(secpN, big.NewInt(1)), secpN,
		new(big.Int).Add(secpN, big.NewInt(1)), new(big.Int).Sub(new(big.Int).Lsh(big.NewInt(1), 256), big.NewInt(1))}
	if rc.Chance(40) {
		return new(big.Int).SetBytes(rc.Bytes(32))
	}
	return opts[rc.Intn(len(opts))]
}

func verdictOf(a common.Address, err error) string {
	switch {
	case err == nil:
		return "sender " + h.Hex(a.Bytes())
	case errors.Is(err, types.ErrInvalidChainId):
		return "chainid"
	case errors.Is(err, types.ErrInvalidSig):
		return "sig"
	default:
		return "recover-err"
	}
}

func runSign(seed uint64, n int, outDir string, replay string) {
	o := h.NewOut(outDir, "sign")
	r := h.NewRng(seed)
	ans := func(s string) { o.Ans("impl", "%s", s) }
	for c := 0; c < n; c++ {
		rc := r.Fork()
		o.NewCase()
		o.Op("newcase")
		ans("ok")
		// (a) signature value ranges
		for i := 0; i < 4; i++ {
			v, rr, ss := rc.Intn(4), sgBoundary(rc), sgBoundary(rc)
			if rc.Chance(10) {
				v = 27 + rc.Intn(2)
			}
			o.Op("sigvals %d %s %s", v, rr, ss)
			ans(tf(crypto.ValidateSignatureValues(byte(v), rr, ss)))
		}
		// (b) a really signed transaction, its mutations, chain-id pairings, the cache
		p := genTxParams(rc)
		p.kind = 0
		from := crypto.PubkeyToAddress(p.key.PublicKey, common.Location{0, 0})
		p.loc = common.Location{from.Bytes()[0] >> 4, from.Bytes()[0] & 0x0f}
		if rc.Chance(20) {
			p.chainID = new(big.Int) // zero chain id: "unspecified" must still not be attributable on other chains
		}
		tx := p.build()
		signer := types.NewSigner(p.chainID, p.loc)
		orig, err := types.Sender(signer, tx)
		if err != nil || orig.Bytes20() != from.Bytes20() {
			o.Violate("c03-signer-not-recovered", fmt.Sprintf("Sender of a freshly signed tx: %v %v, want %x", orig, err, from.Bytes()))
			continue
		}
		// the same transaction seen by nodes of other chains of the network (same chain id, other location): the sender's
		// bytes are the same everywhere, but whether it is an account of *this* chain depends on who asks - also when an
		// earlier answer for another location is still cached on the transaction
		{
			locs := []common.Location{p.loc, {(p.loc[0] + 1) % 3, p.loc[1]}, {p.loc[0], (p.loc[1] + 1) % 3}, p.loc}
			for i := len(locs) - 1; i > 0; i-- {
				j := rc.Intn(i + 1)
				locs[i], locs[j] = locs[j], locs[i]
			}
			for _, l := range locs {
				a, err := types.Sender(types.NewSigner(p.chainID, l), tx)
				if err != nil {
					continue
				}
				_, ierr := a.InternalAddress()
				home := l.Equal(p.loc)
				switch {
				case a.Bytes20() != from.Bytes20():
					o.Violate("c03-sender-differs-by-location", fmt.Sprintf("asked for location %v the sender is %x, for its home location %x", l, a.Bytes(), from.Bytes()))
				case home && ierr != nil:
					o.Violate("c16-sender-classified-for-another-location", fmt.Sprintf("a node of %v is told that sender %x of its own chain is external (%v)", l, a.Bytes(), ierr))
				case !home && ierr == nil:
					o.Violate("c16-sender-classified-for-another-location", fmt.Sprintf("a node of %v is told that sender %x (an account of %v) is one of its own accounts", l, a.Bytes(), p.loc))
				}
			}
			o.Count("sender-asked-from-four-locations")
		}
		vv, rr, ss := tx.GetEcdsaSignatureValues()
		recd := func(t *types.Transaction, s types.Signer) string {
			// what plain ECDSA recovery yields for this tx's own signing hash (opaque to the model)
			sig := make([]byte, 65)
			_, r2, s2 := t.GetEcdsaSignatureValues()
			v2, _, _ := t.GetEcdsaSignatureValues()
			rb, sb := r2.Bytes(), s2.Bytes()
			if len(rb) > 32 || len(sb) > 32 || v2.BitLen() > 8 {
				return "none"
			}
			copy(sig[32-len(rb):32], rb)
			copy(sig[64-len(sb):64], sb)
			sig[64] = byte(v2.Uint64())
			hs := s.Hash(t)
			pub, err := crypto.Ecrecover(hs[:], sig)
			if err != nil || len(pub) == 0 || pub[0] != 4 {
				return "none"
			}
			return h.Hex(crypto.Keccak256(pub[1:])[12:])
		}
		o.Op("newtx")
		ans("ok")
		// chain-id pairings through one tx object (exercises the cache)
		chains := []*big.Int{p.chainID, new(big.Int).Add(p.chainID, big.NewInt(1)), big.NewInt(0), p.chainID, big.NewInt(9000), p.chainID}
		for _, sc := range chains {
			s2 := types.NewSigner(sc, p.loc)
			a, err := types.Sender(s2, tx)
			o.Op("sender %s %s %s %s %s %s", p.chainID, sc, vv, rr, ss, recd(tx, s2))
			ans(verdictOf(a, err))
			if err == nil && sc.Cmp(p.chainID) != 0 {
				o.Violate("c03-cross-chain-replay", fmt.Sprintf("tx with chain id %s is attributed to %x by the signer of chain %s", p.chainID, a.Bytes(), sc))
			}
		}
		// single-field mutations: must never yield the original sender
		muts := []func(q *txParams) string{
			func(q *txParams) string { q.nonce++; return "nonce" },
			func(q *txParams) string { q.gas++; return "gas" },
			func(q *txParams) string { q.price = new(big.Int).Add(q.price, big.NewInt(1)); return "price" },
			func(q *txParams) string { q.value = new(big.Int).Add(q.value, big.NewInt(1)); return "value" },
			func(q *txParams) string { q.data = append(common.CopyBytes(q.data), 0); return "data" },
			func(q *txParams) string {
				if q.to == nil {
					a := cAddr(rc, q.loc)
					q.to = &a
				} else {
					b := q.to.Bytes()
					b[19] ^= 1
					a := common.BytesToAddress(b, q.loc)
					q.to = &a
				}
				return "to"
			},
			func(q *txParams) string {
				q.al = append(append(types.AccessList(nil), q.al...), types.AccessTuple{Address: cAddr(rc, q.loc)})
				return "accesslist"
			},
			func(q *txParams) string {
				// no recipient (a contract creation) <-> the zero address of the zone (a transfer that burns): two different
				// payloads that a "zero means none" shortcut would sign alike
				zero := common.ZeroAddress(q.loc)
				if q.to == nil {
					q.to = &zero
					return "to:none->zero-address"
				}
				if q.to.Equal(zero) {
					q.to = nil
					return "to:zero-address->none"
				}
				if rc.Bool() {
					q.to = nil
					return "to:address->none"
				}
				q.to = &zero
				return "to:address->zero-address"
			},
			func(q *txParams) string {
				if len(q.data) == 0 {
					q.data = []byte{0}
					return "data:empty->zero-byte"
				}
				q.data = common.CopyBytes(q.data)
				q.data[len(q.data)-1] ^= 0x80
				return "data:last-byte"
			},
			func(q *txParams) string {
				if len(q.al) == 0 {
					q.al = types.AccessList{{Address: cAddr(rc, q.loc)}}
					return "accesslist:first-entry"
				}
				al := append(types.AccessList(nil), q.al...)
				last := al[len(al)-1]
				last.StorageKeys = append(append([]common.Hash(nil), last.StorageKeys...), cHash(rc))
				al[len(al)-1] = last
				q.al = al
				return "accesslist:storage-key"
			},
		}
		for _, m := range muts {
			q := *p
			name := m(&q)
			// rebuild the mutated tx carrying the ORIGINAL signature
			mt := q.build()
			qq := &types.QuaiTx{ChainID: mt.ChainId(), Nonce: mt.Nonce(), GasPrice: mt.GasPrice(), Gas: mt.Gas(), To: mt.To(), Value: mt.Value(), Data: mt.Data(), AccessList: mt.AccessList(), V: vv, R: rr, S: ss}
			mtx := types.NewTx(qq)
			a, err := types.Sender(signer, mtx)
			o.Op("newtx")
			ans("ok")
			o.Op("sender %s %s %s %s %s %s", p.chainID, p.chainID, vv, rr, ss, recd(mtx, signer))
			ans(verdictOf(a, err))
			if err == nil && a.Bytes20() == orig.Bytes20() {
				o.Violate("c03-mutation-keeps-sender:"+name, fmt.Sprintf("changing %s keeps the sender %x", name, orig.Bytes()))
			}
		}
		// signature-component mutations incl. high-S twin, zero, out of range
		highS := new(big.Int).Sub(secpN, ss)
		for _, sv := range []struct{ v, r, s *big.Int }{{vv, rr, highS}, {new(big.Int).Xor(vv, big.NewInt(1)), rr, highS}, {vv, big.NewInt(0), ss}, {vv, rr, big.NewInt(0)},
			{vv, secpN, ss}, {big.NewInt(int64(2 + rc.Intn(300))), rr, ss}, {vv, sgBoundary(rc), sgBoundary(rc)},
			// recovery ids that are the genuine one modulo 2^8 / 2^32 / 2^56, and one beyond 64 bits
			{new(big.Int).Add(vv, big.NewInt(256)), rr, ss}, {new(big.Int).Add(vv, big.NewInt(int64(256*(1+rc.Intn(250))))), rr, ss},
			{new(big.Int).Add(vv, new(big.Int).Lsh(big.NewInt(1), uint(32+8*rc.Intn(4)))), rr, ss}, {new(big.Int).Add(vv, new(big.Int).Lsh(big.NewInt(1), 64)), rr, ss}} {
			qq := &types.QuaiTx{ChainID: tx.ChainId(), Nonce: tx.Nonce(), GasPrice: tx.GasPrice(), Gas: tx.Gas(), To: tx.To(), Value: tx.Value(), Data: tx.Data(), AccessList: tx.AccessList(), V: sv.v, R: sv.r, S: sv.s}
			mtx := types.NewTx(qq)
			a, err := types.Sender(signer, mtx)
			o.Op("newtx")
			ans("ok")
			o.Op("sender %s %s %s %s %s %s", p.chainID, p.chainID, sv.v, sv.r, sv.s, recd(mtx, signer))
			ans(verdictOf(a, err))
			if err == nil && a.Bytes20() == orig.Bytes20() && (sv.s.Cmp(ss) != 0 || sv.r.Cmp(rr) != 0 || sv.v.Cmp(vv) != 0) {
				o.Violate("c03-malleable-signature", fmt.Sprintf("a different signature (%s,%s,%s) is attributed to the same sender", sv.v, sv.r, sv.s))
			}
		}
		o.EndCase(fmt.Sprint(rc.U64()), true)
	}
	o.Close(nil)
}
