package main

// Area c04h (C04 part c, C20 prime pipeline): routing of cross-chain transactions through a real prime / region /
// zone hierarchy.  Every zone block's outbound ETXs are followed by identity (originating transaction hash, index)
// up through the region's and prime's rollups and back down to the zone as the inbound ETXs of a coincident block,
// into the destination queue and into the body of the block that executes them.
//
//   - the model (Lean, QuaiVerif.Model.Route) is told each block's order and what it emitted, and must name, in
//     order, the ETXs the zone receives with that block;
//   - T3: every emitted ETX is received exactly once, unaltered (other than the repricing of conversions by prime),
//     and executed exactly once, in the order received; nothing is executed that was not emitted;
//   - T3 (C20): a conversion leaves prime either as a conversion credited with no more than the amount implied by the
//     exchange rate prime applies to that block (and no less than the rate value of 10 % of the original), or as a
//     ConversionRevert carrying exactly the original amount.

import (
	"errors"
	"fmt"
	"math/big"
	"os"
	"strings"
	"time"

	"verifharness/internal/h"

	"github.com/dominant-strategies/go-quai/common"
	"github.com/dominant-strategies/go-quai/consensus/misc"
	"github.com/dominant-strategies/go-quai/core/rawdb"
	"github.com/dominant-strategies/go-quai/core/types"
	"github.com/dominant-strategies/go-quai/crypto"
	"github.com/dominant-strategies/go-quai/params"
)

func init() { areas["c04h"] = runC04h }

type etxRec struct {
	id       string
	class    string // "P": coinbase / conversion (confirmed by prime), "S": standard (confirmed by the region)
	slip     uint64 // the sort key prime uses (0 for everything but conversions)
	orig     *types.Transaction
	emitted  uint64 // zone height
	rolled   uint64 // height of the coincident block whose manifest covers the emitting block (0: not yet)
	received int
	executed int
}

func etxID(tx *types.Transaction) string {
	b := append(tx.OriginatingTxHash().Bytes(), byte(tx.ETXIndex()>>8), byte(tx.ETXIndex()))
	return h.Hex(crypto.Keccak256(b)[:6])
}

func etxSlip(tx *types.Transaction) uint64 {
	if tx.EtxType() != types.ConversionType {
		return 0
	}
	s := new(big.Int).Set(params.MaxSlip)
	if len(tx.Data()) > 1 {
		s = new(big.Int).SetBytes(tx.Data()[:2])
		if s.Cmp(params.MaxSlip) > 0 {
			s.Set(params.MaxSlip)
		}
		if s.Cmp(params.MinSlip) < 0 {
			s.Set(params.MinSlip)
		}
	}
	return s.Uint64()
}

func runC04h(seed uint64, n int, outDir string, replay string) {
	o := h.NewOut(outDir, "c04h")
	r := h.NewRng(seed)
	ans := func(s string) { o.Ans("impl", "%s", s) }
	blocksPerCase := 50
	for c := 0; c < n; c++ {
		rc := r.Fork()
		o.NewCase()
		o.Op("newcase")
		ans("ok")
		cwSetParams(cwRegime{})
		params.ControllerKickInBlock = 2
		// both sides of the conversion discount fork: after it (the current protocol) prime discounts the block's
		// conversion amount against the running flow amount; before it the arguments were the other way round
		legacy := c%4 == 3
		params.ConversionSlipChangeBlock = 0
		if legacy {
			params.ConversionSlipChangeBlock = 1 << 40
		}
		func() {
			defer func() {
				if p := recover(); p != nil {
					o.Violate("c04h-panic", fmt.Sprintf("panic: %v at %s", p, stackTop()))
					o.Pad("panic %v", p)
				}
			}()
			t0 := time.Now()
			w, err := newHierWorld(rc.Fork(), cwRegime{})
			if err != nil {
				panic(err)
			}
			hr := w.node.h
			tStart := time.Since(t0)
			defer func() {
				t1 := time.Now()
				hr.stop()
				if os.Getenv("QVH_DEBUG") != "" {
					fmt.Fprintln(os.Stderr, "timing: start", tStart, "run", t1.Sub(t0)-tStart, "stop", time.Since(t1), "retries", hr.retries)
				}
			}()
			w.convertQi = true
			recs := map[string]*etxRec{}
			var delivered []string // ids in the order the zone received them
			nexec := 0
			for b := 0; b < blocksPerCase; b++ {
				// a competing block: before the users act, a second miner (another coinbase) seals the pending header
				// on the same parent; it reaches the zone after the block the history continues with
				var sib *types.WorkObject
				if b == 3 || b == 27 {
					w.zoneRun = 5 // a run of zone blocks: manifests of 3 and more entries, each block with a competitor
				}
				if hr.zone.tip != nil && b >= 2 {
					hr.nextCoinbase = w.quai[0].addr
					var serr error
					sib, serr = hr.next(common.ZONE_CTX)
					if serr != nil {
						o.Count("sibling:no-pending-header")
					}
				}
				st, err := w.step()
				if err == nil && sib != nil {
					err = c04hSibling(o, hr, st, sib)
				}
				if st != nil && st.blk != nil {
					c04hManifestOracle(o, hr, st.blk)
				}
				if errors.Is(err, errHierStuck) {
					if os.Getenv("QVH_DEBUG") != "" {
						fmt.Fprintln(os.Stderr, "STUCK:", err)
					}
					o.Count("case-cut-short:coordinator-stuck")
					break
				}
				if err != nil {
					o.Violate("c07-own-block-rejected", fmt.Sprintf("block %d: %v", b+1, err))
					return
				}
				blk := st.blk
				num := blk.NumberU64(common.ZONE_CTX)
				// executed: the ETXs in the body, which must be the next items received
				for _, tx := range blk.Transactions() {
					if tx.Type() != types.ExternalTxType {
						continue
					}
					id := etxID(tx)
					rec := recs[id]
					if rec == nil {
						o.Violate("c04-unknown-etx-executed", fmt.Sprintf("block %d executes ETX %s that no block of the zone emitted", num, id))
						continue
					}
					rec.executed++
					if rec.executed > 1 {
						o.Violate("c04-etx-executed-twice", fmt.Sprintf("block %d executes ETX %s again", num, id))
					}
					if nexec >= len(delivered) || delivered[nexec] != id {
						o.Violate("c04-etx-executed-out-of-order", fmt.Sprintf("block %d executes ETX %s, the next received one is %v", num, id, delivered[min(nexec, len(delivered)):min(nexec+1, len(delivered))]))
					}
					nexec++
				}
				// emitted
				var em []string
				for _, e := range blk.OutboundEtxs() {
					id := etxID(e)
					cl := "S"
					if isCoinbaseEtx(e) || isConversionEtx(e) {
						cl = "P"
					}
					if recs[id] != nil {
						o.Violate("c04-etx-id-reused", fmt.Sprintf("block %d emits ETX %s again", num, id))
					}
					recs[id] = &etxRec{id: id, class: cl, slip: etxSlip(e), orig: e, emitted: num}
					em = append(em, fmt.Sprintf("%s:%s:%d", id, cl, etxSlip(e)))
					o.Count(fmt.Sprintf("emit:type%d:%s", e.EtxType(), cl))
				}
				// received with this block
				var in []string
				if st.order < common.ZONE_CTX {
					for _, tx := range rawdb.ReadInboundEtxs(w.node.db, blk.Hash()) {
						id := etxID(tx)
						in = append(in, id)
						rec := recs[id]
						if rec == nil {
							o.Violate("c04-unknown-etx-received", fmt.Sprintf("block %d delivers ETX %s that no block of the zone emitted", num, id))
							continue
						}
						rec.received++
						if rec.received > 1 {
							o.Violate("c04-etx-received-twice", fmt.Sprintf("block %d delivers ETX %s again", num, id))
						}
						delivered = append(delivered, id)
						checkTransit(o, hr, blk, rec, tx, legacy)
					}
				}
				// prime sorts (and reprices) what it confirms only once the exchange-rate controller runs
				sorted := st.order == common.PRIME_CTX && blk.NumberU64(common.PRIME_CTX) > params.ControllerKickInBlock
				// T3: deadlines.  A coincident (region-level) block rolls up what the zone blocks before it emitted; a
				// region-order block must then have delivered every region-confirmed ETX rolled up so far, a prime-order
				// block every prime-confirmed ETX rolled up by the coincident blocks before it.
				if st.order < common.ZONE_CTX {
					for _, rec := range recs {
						if rec.rolled != 0 && rec.received == 0 && ((st.order == common.REGION_CTX && rec.class == "S") || (st.order == common.PRIME_CTX && rec.class == "P")) {
							o.Violate("c04-etx-lost-in-transit", fmt.Sprintf("ETX %s (class %s) emitted by block %d and rolled up by coincident block %d has not reached the zone with the %s-order block %d", rec.id, rec.class, rec.emitted, rec.rolled, map[int]string{0: "prime", 1: "region"}[st.order], num))
							rec.received = -1 // reported once
						}
					}
					for _, rec := range recs {
						if rec.rolled == 0 && rec.emitted < num {
							rec.rolled = num
						}
					}
				}
				o.Op("blk %d %s %s", st.order, b01(sorted), strings.Join(em, " "))
				ans(strings.Join(in, " "))
				o.Count(fmt.Sprintf("order:%d", st.order))
				if os.Getenv("QVH_DEBUG") != "" {
					fmt.Fprintln(os.Stderr, "blk", blk.NumberArray(), "order", st.order, "emits", em, "receives", in, "manifest", len(blk.Manifest()))
				}
			}
			// end of history: what was emitted long ago must have arrived
			for k, v := range w.hist {
				o.Hist[k] += v
			}
		}()
		o.EndCase(fmt.Sprint(rc.U64()), true)
	}
	o.Close(nil)
}

// c04hSibling appends a competing zone-order block (same parent, other content) after the block the history continues
// with: the zone keeps its head, the sibling stays a side block.  Nothing the sibling emitted may ever be delivered and
// nothing of the accepted block may be lost - the oracles of the main loop see to that.
func c04hSibling(o *h.Out, hr *hier, st *cwStep, sib *types.WorkObject) error {
	z, blk := hr.zone, st.blk
	if st.order != common.ZONE_CTX || sib.ParentHash(common.ZONE_CTX) != blk.ParentHash(common.ZONE_CTX) || sib.Hash() == blk.Hash() {
		o.Count(fmt.Sprintf("sibling:skipped:order%d:sameparent%v:samehash%v", st.order, sib.ParentHash(common.ZONE_CTX) == blk.ParentHash(common.ZONE_CTX), sib.Hash() == blk.Hash()))
		return nil
	}
	if _, order, err := z.hc.CalcOrder(sib); err != nil || order != common.ZONE_CTX {
		return nil
	}
	zblk, err := z.cr.ReceiveMinedHeader(sib)
	if err != nil {
		o.Count("sibling:not-built")
		return nil
	}
	z.sl.WriteBlock(zblk)
	known := func() bool {
		return z.hc.GetHeaderByHash(zblk.Hash()) != nil && z.hc.GetTerminiByHash(zblk.Hash()) != nil
	}
	for try := 0; try < 40 && !known(); try++ {
		z.cr.InsertChain(types.WorkObjects{zblk})
		if !known() {
			time.Sleep(25 * time.Millisecond)
		}
	}
	if !known() {
		o.Count("sibling:not-appended")
		return nil
	}
	o.Count("sibling:appended")
	if len(zblk.OutboundEtxs()) > 0 {
		o.Count("sibling:appended:emits-etxs")
	}
	if z.hc.CurrentHeader().Hash() != blk.Hash() {
		o.Count("sibling:became-head")
		return fmt.Errorf("%w: the zone moved to the competing block", errHierStuck)
	}
	return hr.pendingHeaders()
}

// c04hManifestOracle: the manifest the zone hands to its dominant chain for a block (Slice.GetManifest - the list of
// zone blocks whose ETXs the next coincident block rolls up) is the block's own ancestry: it ends with the block, every
// entry is the parent of the next one.  Asked for the block just appended and for its parent, after any competitor.
func c04hManifestOracle(o *h.Out, hr *hier, blk *types.WorkObject) {
	z := hr.zone
	for _, b := range []*types.WorkObject{blk, z.hc.GetHeaderByHash(blk.ParentHash(common.ZONE_CTX))} {
		if b == nil || z.hc.IsGenesisHash(b.Hash()) {
			continue
		}
		m, err := z.sl.GetManifest(b.Hash())
		if err != nil || len(m) == 0 {
			continue
		}
		o.Count(fmt.Sprintf("manifest-len:%d", min(len(m), 8)))
		bad := m[len(m)-1] != b.Hash()
		for i := 0; i+1 < len(m) && !bad; i++ {
			hd := z.hc.GetHeaderByHash(m[i+1])
			bad = hd == nil || hd.ParentHash(common.ZONE_CTX) != m[i]
		}
		if bad {
			o.Violate("c04-manifest-is-not-the-blocks-ancestry", fmt.Sprintf("block %d (%x): the manifest the zone reports for it has %d entries ending in %x and is not the chain of its ancestors: the coincident block would roll up the ETXs of another block", b.NumberU64(common.ZONE_CTX), b.Hash().Bytes()[:6], len(m), m[len(m)-1].Bytes()[:6]))
			return
		}
	}
}

// checkTransit: what arrives is what was sent; conversions may be repriced by prime within the protocol's bounds
func checkTransit(o *h.Out, hr *hier, blk *types.WorkObject, rec *etxRec, got *types.Transaction, legacy bool) {
	e := rec.orig
	same := e.To().Equal(*got.To()) && e.ETXSender().Equal(got.ETXSender()) && e.Gas() == got.Gas() && string(e.Data()) == string(got.Data()) && fmt.Sprint(e.AccessList()) == fmt.Sprint(got.AccessList())
	if !same {
		o.Violate("c04-etx-altered-in-transit", fmt.Sprintf("ETX %s arrives with other to / sender / gas / data / access list", rec.id))
	}
	if !isConversionEtx(e) {
		if e.Value().Cmp(got.Value()) != 0 || e.EtxType() != got.EtxType() {
			o.Violate("c04-etx-altered-in-transit", fmt.Sprintf("ETX %s (type %d, value %s) arrives as type %d, value %s", rec.id, e.EtxType(), e.Value(), got.EtxType(), got.Value()))
		}
		return
	}
	// C20: one of two outcomes
	orig := e.Value()
	switch got.EtxType() {
	case types.ConversionRevertType:
		o.Count("conversion:reverted")
		if got.Value().Cmp(orig) != 0 {
			o.Violate("c20-revert-not-full-refund", fmt.Sprintf("conversion %s of %s comes back as a revert carrying %s", rec.id, orig, got.Value()))
		}
	case types.ConversionType:
		if blk.NumberU64(common.PRIME_CTX) <= params.ControllerKickInBlock {
			o.Count("conversion:before-controller")
			return
		}
		if hr.primePH == nil || hr.primePH.ParentHash(common.PRIME_CTX) != blk.Hash() {
			o.Count("conversion:rate-unknown")
			return
		}
		rate := hr.primePH.ExchangeRate() // the rate prime derived while appending blk and applied to its conversions
		tenth := new(big.Int).Div(new(big.Int).Mul(orig, big.NewInt(10)), big.NewInt(100))
		var lo, hi *big.Int
		if got.To().IsInQiLedgerScope() {
			lo, hi = misc.QuaiToQi(blk, rate, blk.MinerDifficulty(), tenth), misc.QuaiToQi(blk, rate, blk.MinerDifficulty(), orig)
			o.Count("conversion:quai-to-qi:legacy=" + b01(legacy))
		} else {
			lo, hi = misc.QiToQuai(blk, rate, blk.MinerDifficulty(), tenth), misc.QiToQuai(blk, rate, blk.MinerDifficulty(), orig)
			o.Count("conversion:qi-to-quai:legacy=" + b01(legacy))
		}
		if got.Value().Cmp(hi) > 0 && os.Getenv("QVH_DEBUG") != "" {
			fmt.Fprintln(os.Stderr, "DBG conv", rec.id, "orig", orig, "got", got.Value(), "toQi", got.To().IsInQiLedgerScope(), "blk", blk.NumberArray(), "blkRate", blk.ExchangeRate(), "phRate", rate, "minerDiff", blk.MinerDifficulty(), "diff", blk.Difficulty(),
				"atBlkRate", misc.QiToQuai(blk, blk.ExchangeRate(), blk.MinerDifficulty(), orig), "atPhRate", misc.QiToQuai(blk, rate, blk.MinerDifficulty(), orig), "emittedAt", rec.emitted, "data", fmt.Sprintf("%x", got.Data()))
		}
		if got.Value().Cmp(hi) > 0 && legacy {
			o.Violate("c20-credit-above-rate:legacy-discount", fmt.Sprintf("before the ConversionSlipChangeBlock fork: conversion %s of %s is credited %s, the rate applied by this prime block allows at most %s", rec.id, orig, got.Value(), hi))
		} else if got.Value().Cmp(hi) > 0 {
			o.Violate("c20-credit-above-rate", fmt.Sprintf("conversion %s of %s is credited %s, the rate applied by this prime block allows at most %s", rec.id, orig, got.Value(), hi))
		}
		if got.Value().Cmp(lo) < 0 {
			o.Violate("c20-credit-below-floor", fmt.Sprintf("conversion %s of %s is credited %s, below the protocol floor %s (10 %% at the applied rate)", rec.id, orig, got.Value(), lo))
		}
		if got.Value().Cmp(hi) == 0 {
			o.Count("conversion:credited-at-full-rate")
		}
	default:
		o.Violate("c20-conversion-changes-kind", fmt.Sprintf("conversion %s arrives as ETX type %d", rec.id, got.EtxType()))
	}
}
