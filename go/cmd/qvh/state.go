package main

// Area state (C12): random nested snapshot/revert programs of journalled mutators on the real
// state.StateDB over a committed pre-state. After every revert the full observable dump must equal the
// model's, and (T3) the dump and the IntermediateRoot of a copy must equal those taken at the snapshot.

import (
	"fmt"
	"math/big"
	"strings"

	"verifharness/internal/h"

	"github.com/dominant-strategies/go-quai/common"
	"github.com/dominant-strategies/go-quai/core/rawdb"
	"github.com/dominant-strategies/go-quai/core/state"
	"github.com/dominant-strategies/go-quai/core/types"
	"github.com/dominant-strategies/go-quai/log"
)

func init() { areas["state"] = runState }

var stLoc = common.Location{0, 0}

func stAddr(a int) common.InternalAddress {
	var ia common.InternalAddress
	ia[18] = 0x10
	ia[19] = byte(a)
	return ia
}
func stHash(k int) common.Hash { return common.BigToHash(big.NewInt(int64(k))) }

func b01(b bool) string {
	if b {
		return "1"
	}
	return "0"
}

func stDump(s *state.StateDB) string {
	var accts, acc, tr []string
	for a := 1; a <= 4; a++ {
		ia := stAddr(a)
		code := 0
		if c := s.GetCode(ia); len(c) > 0 {
			code = int(c[0])
		}
		sz := big.NewInt(0)
		if z := s.GetSize(ia); z != nil {
			sz = z
		}
		row := fmt.Sprintf("%d:%s,%s,%d,%d,%s,%s", a, b01(s.Exist(ia)), s.GetBalance(ia), s.GetNonce(ia), code, sz, b01(s.HasSuicided(ia)))
		for k := 0; k < 3; k++ {
			row += "," + s.GetState(ia, stHash(k)).Big().String()
		}
		accts = append(accts, row)
		ab := common.AddressBytes(ia)
		x := b01(s.AddressInAccessList(ab))
		for k := 0; k < 3; k++ {
			_, ok := s.SlotInAccessList(ab, stHash(k))
			x += b01(ok)
		}
		acc = append(acc, x)
		var t []string
		for k := 0; k < 3; k++ {
			t = append(t, s.GetTransientState(ia, stHash(k)).Big().String())
		}
		tr = append(tr, strings.Join(t, ","))
	}
	var logs []string
	for _, l := range s.Logs() {
		logs = append(logs, fmt.Sprint(int(l.Data[0])))
	}
	return fmt.Sprintf("%s refund=%d logs=%s acc=%s tr=%s", strings.Join(accts, " "), s.GetRefund(), strings.Join(logs, ","), strings.Join(acc, ","), strings.Join(tr, ";"))
}

type stFrame struct {
	id       int
	dump     string
	suicides map[int]bool
	ops      []func(*state.StateDB) // committed effects of this frame so far
}

func runState(seed uint64, n int, outDir string, replay string) {
	o := h.NewOut(outDir, "state")
	r := h.NewRng(seed)
	ans := func(s string) { o.Ans("impl", "%s", s) }
	for c := 0; c < n; c++ {
		rc := r.Fork()
		stCase(o, rc, ans)
	}
	o.Close(nil)
}

func stCase(o *h.Out, rc *h.Rng, ans func(string)) {
	defer func() {
		if p := recover(); p != nil {
			o.Violate("c12-panic", fmt.Sprintf("panic while running the case: %v", p))
			o.Pad("panic %v", p)
		}
	}()
	{
		o.NewCase()
		o.Op("newcase")
		ans("ok")
		db := state.NewDatabase(rawdb.NewMemoryDatabase(log.Global))
		sdb, err := state.New(common.Hash{}, common.Hash{}, new(big.Int), db, db, nil, stLoc, log.Global)
		if err != nil {
			panic(err)
		}
		// committed pre-state: some accounts with balance / nonce / code / storage (so that size > 0)
		for a := 1; a <= 4; a++ {
			if rc.Chance(35) {
				continue
			}
			ia := stAddr(a)
			sdb.AddBalance(ia, big.NewInt(int64(1+rc.Intn(50))))
			if rc.Bool() {
				sdb.SetNonce(ia, uint64(rc.Intn(4)))
			}
			if rc.Bool() {
				sdb.SetCode(ia, []byte{byte(1 + rc.Intn(5))})
				for k := 0; k < 3; k++ {
					if rc.Bool() {
						sdb.SetState(ia, stHash(k), stHash(1+rc.Intn(9)))
					}
				}
			}
		}
		root, err := sdb.Commit(true)
		if err != nil {
			panic(err)
		}
		// the parent's state-size commitment: one object handed to every execution that starts from this
		// parent, the way the cached parent header's field is
		parentSize := new(big.Int).Set(sdb.GetQuaiTrieSize())
		parentSizeWas := parentSize.String()
		sdb, err = state.New(root, common.Hash{}, parentSize, db, db, nil, stLoc, log.Global)
		if err != nil {
			panic(err)
		}
		for a := 1; a <= 4; a++ {
			ia := stAddr(a)
			if !sdb.Exist(ia) {
				continue
			}
			code := 0
			if cd := sdb.GetCode(ia); len(cd) > 0 {
				code = int(cd[0])
			}
			o.Op("pre acct %d %s %d %d %s", a, sdb.GetBalance(ia), sdb.GetNonce(ia), code, sdb.GetSize(ia))
			ans("ok")
			for k := 0; k < 3; k++ {
				if v := sdb.GetState(ia, stHash(k)); v != (common.Hash{}) {
					o.Op("pre stor %d %d %s", a, k, v.Big())
					ans("ok")
				}
			}
		}
		var stack []*stFrame
		var base []func(*state.StateDB)
		var cur func(*state.StateDB)
		nops := 5 + rc.Intn(55)
		kinds := map[string]bool{}
		reverts := 0
		hot := 0
		for i := 0; i < nops; i++ {
			a := 1 + rc.Intn(4)
			if hot != 0 && rc.Chance(50) {
				a = hot
			}
			ia := stAddr(a)
			k := rc.Intn(3)
			x := rc.Intn(100)
			name := ""
			if len(stack) == 0 && i > 0 && rc.Chance(7) {
				// the end of a transaction (no frame is open): self-destructed and emptied accounts are marked deleted -
				// their objects stay until the block is committed - and the journal is cleared.  The following operations
				// are the next transaction of the same block; an account deleted here is preferred by them (re-creation
				// of a deleted account inside a frame that reverts)
				before := map[int]bool{}
				for b := 1; b <= 4; b++ {
					before[b] = sdb.Exist(stAddr(b))
				}
				fin := func(s *state.StateDB) { s.Finalize(true) }
				fin(sdb)
				base = append(base, fin)
				hot = 0
				for b := 1; b <= 4; b++ {
					if before[b] && !sdb.Exist(stAddr(b)) {
						hot = b
					}
				}
				o.Op("endtx")
				ans("ok")
				o.Op("dump")
				ans(stDump(sdb))
				o.Count("endtx")
				if hot != 0 {
					o.Count("endtx-deleted-an-account")
				}
				continue
			}
			switch {
			case x < 10:
				if len(stack) < 6 {
					f := &stFrame{suicides: map[int]bool{}}
					f.dump = stDump(sdb)
					f.id = sdb.Snapshot()
					stack = append(stack, f)
					o.Op("snap")
					ans("ok")
				}
				continue
			case x < 20:
				if len(stack) == 0 {
					continue
				}
				f := stack[len(stack)-1]
				stack = stack[:len(stack)-1]
				if rc.Chance(65) {
					sdb.RevertToSnapshot(f.id)
					reverts++
					o.Op("revert")
					ans("ok")
					o.Op("dump")
					d := stDump(sdb)
					ans(d)
					// T3: the observable state equals the one at frame entry (the state commitment is
					// compared at the end of the case against a re-execution without the reverted frames)
					if d != f.dump {
						sig := "c12-revert-mismatch"
						if onlySuicideSizeDiffers(f.dump, d, f.suicides) {
							sig = "c12-suicide-size-not-restored"
						}
						o.Violate(sig, fmt.Sprintf("after RevertToSnapshot: dump/root differ from frame entry: entry `%s`; now `%s`", f.dump, d))
					}
				} else {
					// committed frame: its suicides now belong to the enclosing frame
					if len(stack) > 0 {
						for s := range f.suicides {
							stack[len(stack)-1].suicides[s] = true
						}
						stack[len(stack)-1].ops = append(stack[len(stack)-1].ops, f.ops...)
					} else {
						base = append(base, f.ops...)
					}
					o.Op("commitframe")
					ans("ok")
				}
				continue
			case x < 26:
				if sdb.GetNonce(ia) != 0 || len(sdb.GetCode(ia)) != 0 {
					continue // evm.create refuses (address collision); not reachable
				}
				name = "createAccount"
				cur = func(s *state.StateDB) { s.CreateAccount(ia) }
				cur(sdb)
				o.Op("m createAccount %d", a)
			case x < 36:
				v := rc.Intn(20)
				if rc.Chance(15) {
					v = 0
				}
				name = "addBalance"
				cur = func(s *state.StateDB) { s.AddBalance(ia, big.NewInt(int64(v))) }
				cur(sdb)
				o.Op("m addBalance %d %d", a, v)
			case x < 43:
				bal := sdb.GetBalance(ia).Int64()
				v := int64(0)
				if bal > 0 {
					v = int64(rc.Intn(int(bal) + 1))
				}
				name = "subBalance"
				cur = func(s *state.StateDB) { s.SubBalance(ia, big.NewInt(v)) }
				cur(sdb)
				o.Op("m subBalance %d %d", a, v)
			case x < 47:
				v := rc.Intn(30)
				name = "setBalance"
				cur = func(s *state.StateDB) { s.SetBalance(ia, big.NewInt(int64(v))) }
				cur(sdb)
				o.Op("m setBalance %d %d", a, v)
			case x < 53:
				v := rc.Intn(5)
				name = "setNonce"
				cur = func(s *state.StateDB) { s.SetNonce(ia, uint64(v)) }
				cur(sdb)
				o.Op("m setNonce %d %d", a, v)
			case x < 58:
				v := rc.Intn(6)
				name = "setCode"
				if v == 0 || len(sdb.GetCode(ia)) != 0 {
					continue // code is only ever set on a code-less account (evm.create)
				}
				cur = func(s *state.StateDB) { s.SetCode(ia, []byte{byte(v)}) }
				cur(sdb)
				o.Op("m setCode %d %d", a, v)
			case x < 72:
				v := rc.Intn(4)
				name = "setState"
				cur = func(s *state.StateDB) { s.SetState(ia, stHash(k), stHash(v)) }
				cur(sdb)
				o.Op("m setState %d %d %d", a, k, v)
			case x < 78:
				name = "suicide"
				if sdb.Exist(ia) {
					for _, f := range stack {
						_ = f
					}
					if len(stack) > 0 {
						stack[len(stack)-1].suicides[a] = true
					}
				}
				cur = func(s *state.StateDB) { s.Suicide(ia) }
				cur(sdb)
				o.Op("m suicide %d", a)
			case x < 82:
				v := rc.Intn(10)
				name = "addRefund"
				cur = func(s *state.StateDB) { s.AddRefund(uint64(v)) }
				cur(sdb)
				o.Op("m addRefund %d", v)
			case x < 85:
				v := rc.Intn(int(sdb.GetRefund()) + 1)
				name = "subRefund"
				cur = func(s *state.StateDB) { s.SubRefund(uint64(v)) }
				cur(sdb)
				o.Op("m subRefund %d", v)
			case x < 89:
				name = "addLog"
				cur = func(s *state.StateDB) { s.AddLog(&types.Log{Data: []byte{byte(i)}}) }
				cur(sdb)
				o.Op("m addLog %d", i)
			case x < 92:
				name = "accessAddr"
				cur = func(s *state.StateDB) { s.AddAddressToAccessList(common.AddressBytes(ia)) }
				cur(sdb)
				o.Op("m accessAddr %d", a)
			case x < 96:
				name = "accessSlot"
				cur = func(s *state.StateDB) { s.AddSlotToAccessList(common.AddressBytes(ia), stHash(k)) }
				cur(sdb)
				o.Op("m accessSlot %d %d", a, k)
			default:
				v := rc.Intn(3)
				name = "setTransient"
				cur = func(s *state.StateDB) { s.SetTransientState(ia, stHash(k), stHash(v)) }
				cur(sdb)
				o.Op("m setTransient %d %d %d", a, k, v)
			}
			ans("ok")
			kinds[name] = true
			if len(stack) > 0 {
				stack[len(stack)-1].ops = append(stack[len(stack)-1].ops, cur)
			} else {
				base = append(base, cur)
			}
		}
		// frames still open at the end of the case are committed
		for _, f := range stack {
			base = append(base, f.ops...)
		}
		o.Op("dump")
		ans(stDump(sdb))
		// T3: the state commitment equals the one reached by executing only the non-reverted operations
		a := sdb.IntermediateRoot(true)
		sizeA := sdb.GetQuaiTrieSize().String()
		// C06: executing on a parent leaves the parent as it was, so that the next execution from the same
		// parent object (a second run of the block, a sibling, the assembler) starts from the same inputs
		if now := parentSize.String(); now != parentSizeWas {
			o.Violate("c06-execution-changes-the-parent-state-size", fmt.Sprintf("the parent's state size handed to the execution was %s and is %s after it", parentSizeWas, now))
		}
		ref, err := state.New(root, common.Hash{}, parentSize, db, db, nil, stLoc, log.Global)
		if err != nil {
			panic(err)
		}
		for _, f := range base {
			f(ref)
		}
		b := ref.IntermediateRoot(true)
		if a != b {
			o.Violate("c12-root-differs-from-reexecution", fmt.Sprintf("state root %x after the program with reverted frames, %x when only the non-reverted operations are executed", a[:6], b[:6]))
		} else if sizeB := ref.GetQuaiTrieSize().String(); sizeA != sizeB {
			o.Violate("c06-state-size-differs-between-runs", fmt.Sprintf("the same committed operations on the same parent give state root %x both times and state size %s the first, %s the second time", a[:6], sizeA, sizeB))
		}
		o.EndCase(fmt.Sprint(rc.U64()), reverts > 0 && len(kinds) >= 4)
	}
}

// onlySuicideSizeDiffers: the two dumps differ only in the size field of accounts that self-destructed
// inside the reverted frame (the signature of known finding S2).
func onlySuicideSizeDiffers(before, after string, suicides map[int]bool) bool {
	bw, aw := strings.Fields(before), strings.Fields(after)
	if len(bw) != len(aw) {
		return false
	}
	diff := false
	for i := range bw {
		if bw[i] == aw[i] {
			continue
		}
		bp, ap := strings.Split(bw[i], ","), strings.Split(aw[i], ",")
		if i >= 4 || len(bp) != len(ap) || len(bp) < 6 {
			return false
		}
		a := int(bp[0][0] - '0')
		for j := range bp {
			if bp[j] != ap[j] && j != 4 {
				return false
			}
		}
		if !suicides[a] {
			return false
		}
		diff = true
	}
	return diff || before == after
}
