package main

import (
	"fmt"

	"verifharness/internal/h"

	"github.com/dominant-strategies/go-quai/core/rawdb"
	"github.com/dominant-strategies/go-quai/log"
)

func init() { areas["chain"] = runChain }

func runChain(seed uint64, n int, outDir string, replay string) {
	o := h.NewOut(outDir, "chain")
	node, err := newZoneNode(rawdb.NewMemoryDatabase(log.Global))
	if err != nil {
		fmt.Println("ERR", err)
		o.Close(nil)
		return
	}
	for i := 0; i < 8; i++ {
		blk, err := node.nextBlock()
		if err != nil {
			fmt.Println("ERR next", err)
			break
		}
		err = node.appendBlock(blk)
		fmt.Println("append", i, blk.NumberArray(), err)
		if err != nil {
			break
		}
	}
	o.Close(nil)
}
