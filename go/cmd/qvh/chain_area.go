package main

import (
	"fmt"
	"os"

	"verifharness/internal/h"

	"github.com/dominant-strategies/go-quai/common"
	"github.com/dominant-strategies/go-quai/core/rawdb"
)

func init() { areas["chain"] = runChain }

func runChain(seed uint64, n int, outDir string, replay string) {
	o := h.NewOut(outDir, "chain")
	rg := cwRegime{preTx: os.Getenv("QVH_PRETX") != ""}
	cwSetParams(rg)
	w, err := newWorld(newMemDB(), h.NewRng(seed), rg, zoneOpts{})
	if err != nil {
		fmt.Println("ERR", err)
		o.Close(nil)
		return
	}
	var prev cwScan
	for i := 0; i < n; i++ {
		st, err := w.step()
		if err != nil {
			fmt.Fprintln(os.Stderr, "step", i, "ERR", err)
			break
		}
		blk := st.blk
		sc := scanLedger(w.node.db, w.node.loc)
		if sc.root() != blk.UTXORoot() && os.Getenv("QVH_DEBUG") != "" {
			old := map[string]bool{}
			for _, x := range append(append([]string{}, prev.utxos...), prev.lockups...) {
				old[x] = true
			}
			cur := map[string]bool{}
			for _, x := range append(append([]string{}, sc.utxos...), sc.lockups...) {
				cur[x] = true
				if !old[x] {
					fmt.Fprintln(os.Stderr, "   + ", x)
				}
			}
			sp, _ := rawdb.ReadSpentUTXOs(w.node.db, blk.Hash())
			tr, _ := rawdb.ReadTrimmedUTXOs(w.node.db, blk.Hash())
			ck, _ := rawdb.ReadCreatedUTXOKeys(w.node.db, blk.Hash())
			fmt.Fprintln(os.Stderr, "   undo: spent", len(sp), "trimmed", len(tr), "createdkeys", len(ck))
			for _, x := range sp {
				fmt.Fprintf(os.Stderr, "     spent %x:%d\n", x.TxHash[:4], x.Index)
			}
			for _, x := range tr {
				fmt.Fprintf(os.Stderr, "     trimmed %x:%d\n", x.TxHash[:4], x.Index)
			}
			for i, tx := range blk.Transactions() {
				fmt.Fprintf(os.Stderr, "     blocktx %d type %d hash %x\n", i, tx.Type(), tx.Hash().Bytes()[:4])
			}
			for x := range old {
				if !cur[x] {
					fmt.Fprintln(os.Stderr, "   - ", x)
				}
			}
		}
		prev = sc
		fmt.Fprintln(os.Stderr, "blk", blk.NumberArray(), "order", st.order, "txs", len(blk.Transactions()), "out", len(blk.OutboundEtxs()), "inbound", len(st.inbound),
			"utxos", len(sc.utxos), "lockups", len(sc.lockups), "setsize", rawdb.ReadUTXOSetSize(w.node.db, blk.Hash()), "rootok", sc.root() == blk.UTXORoot(), "diff", blk.Difficulty(), "gasused", blk.GasUsed())
		if os.Getenv("QVH_DEBUG") != "" {
			rs := rawdb.ReadReceipts(w.node.db, blk.Hash(), blk.NumberU64(common.ZONE_CTX), w.node.sl.Config())
			for i, r := range rs {
				tx := blk.Transactions()[i]
				if tx.Type() == 2 {
					fmt.Fprintln(os.Stderr, "   tx", i, "qi ins", len(tx.TxIn()), "outs", len(tx.TxOut()), "status", r.Status, "gas", r.GasUsed)
					continue
				}
				fmt.Fprintln(os.Stderr, "   tx", i, "type", tx.Type(), "to", tx.To(), "status", r.Status, "gas", r.GasUsed, "contract", r.ContractAddress)
			}
		}
	}
	fmt.Fprintln(os.Stderr, w.hist)
	o.Close(nil)
}
