// Area "snap" (C06, cache warmth): the flat-state snapshot layers (core/state/snapshot) under a chain of blocks.  Each
// block is a diff layer (accounts destructed, account data, storage slots written) on its parent; the chain caps the
// stack as blocks arrive (flattening the lowest layers into one, or into the disk layer).  T2: every surviving root
// read through the real layers vs the Lean model of layers / flatten / disk write.  T3: every surviving root reads the
// content obtained by applying the blocks in order (what a node reading the tries sees).
package main

import (
	"fmt"
	"sort"
	"strings"
	"time"

	"github.com/dominant-strategies/go-quai/common"
	"github.com/dominant-strategies/go-quai/core/rawdb"
	"github.com/dominant-strategies/go-quai/core/state/snapshot"
	"github.com/dominant-strategies/go-quai/core/types"
	"github.com/dominant-strategies/go-quai/crypto"
	"github.com/dominant-strategies/go-quai/log"
	"github.com/dominant-strategies/go-quai/trie"
	"verifharness/internal/h"
)

func init() { areas["snap"] = runSnap }

const snapAccts, snapSlots = 4, 3

func snapAcctHash(a int) common.Hash { return crypto.Keccak256Hash([]byte{0xa0, byte(a)}) }
func snapSlotHash(k int) common.Hash { return crypto.Keccak256Hash([]byte{0x50, byte(k)}) }
func snapRoot(i int) common.Hash {
	if i == 0 {
		return types.EmptyRootHash
	}
	return crypto.Keccak256Hash([]byte{0x77, byte(i), byte(i >> 8)})
}

type snapContent struct {
	acct [snapAccts + 1]int
	stor [snapAccts + 1][snapSlots]int
}

func (c snapContent) String() string {
	var sb strings.Builder
	for a := 1; a <= snapAccts; a++ {
		fmt.Fprintf(&sb, "%d=%d", a, c.acct[a])
		for k := 0; k < snapSlots; k++ {
			fmt.Fprintf(&sb, ",%d", c.stor[a][k])
		}
		sb.WriteString(" ")
	}
	return strings.TrimSpace(sb.String())
}

func snapRead(t *snapshot.Tree, root common.Hash) (string, bool) {
	s := t.Snapshot(root)
	if s == nil {
		return "gone", false
	}
	var c snapContent
	val := func(b []byte) int {
		if len(b) == 0 {
			return 0
		}
		return int(b[0])
	}
	for a := 1; a <= snapAccts; a++ {
		b, err := s.AccountRLP(snapAcctHash(a))
		if err != nil {
			return "err " + err.Error(), false
		}
		c.acct[a] = val(b)
		for k := 0; k < snapSlots; k++ {
			b, err := s.Storage(snapAcctHash(a), snapSlotHash(k))
			if err != nil {
				return "err " + err.Error(), false
			}
			c.stor[a][k] = val(b)
		}
	}
	return c.String(), true
}

func runSnap(seed uint64, n int, outDir string, replay string) {
	o := h.NewOut(outDir, "snap")
	r := h.NewRng(seed)
	ans := func(s string) { o.Ans("impl", "%s", s) }
	for c := 0; c < n; c++ {
		rc := r.Fork()
		o.NewCase()
		o.Op("newcase")
		ans("ok")
		func() {
			defer func() {
				if p := recover(); p != nil {
					o.Violate("snap-panic", fmt.Sprintf("panic: %v at %s", p, stackTop()))
					o.Pad("panic %v", p)
				}
			}()
			disk := rawdb.NewMemoryDatabase(log.Global)
			tree, err := snapshot.New(disk, trie.NewDatabase(disk), 1, snapRoot(0), true, false, log.Global)
			if err != nil {
				panic(err)
			}
			for i := 0; ; i++ { // the (empty) base layer is generated in the background
				if _, err := tree.AccountIterator(snapRoot(0), common.Hash{}); err == nil {
					break
				}
				if i > 2000 {
					panic("snapshot generation of the empty state does not finish")
				}
				time.Sleep(time.Millisecond)
			}
			content := map[int]snapContent{0: {}} // the specification: content per block
			tip := 0
			nblocks := 3 + rc.Intn(14)
			for b := 1; b <= nblocks; b++ {
				cur := content[tip]
				destructs := map[common.Hash]struct{}{}
				accounts := map[common.Hash][]byte{}
				storage := map[common.Hash]map[common.Hash][]byte{}
				var ds, as, ss []string
				for a := 1; a <= snapAccts; a++ {
					if !rc.Chance(55) {
						continue
					}
					ah := snapAcctHash(a)
					destructed := false
					if cur.acct[a] != 0 && rc.Chance(35) {
						// self-destruct (the statedb reports it in destructs); with a chance re-created in the same block
						destructs[ah] = struct{}{}
						ds = append(ds, fmt.Sprint(a))
						cur.acct[a] = 0
						cur.stor[a] = [snapSlots]int{}
						destructed = true
						if !rc.Chance(60) {
							continue
						}
					}
					v := 1 + rc.Intn(200)
					accounts[ah] = []byte{byte(v)}
					as = append(as, fmt.Sprintf("%d:%d", a, v))
					cur.acct[a] = v
					for k := 0; k < snapSlots; k++ {
						if !rc.Chance(45) {
							continue
						}
						sv := rc.Intn(200)
						if rc.Chance(20) || (destructed && rc.Chance(30)) {
							sv = 0
						}
						if storage[ah] == nil {
							storage[ah] = map[common.Hash][]byte{}
						}
						if sv == 0 {
							storage[ah][snapSlotHash(k)] = nil
						} else {
							storage[ah][snapSlotHash(k)] = []byte{byte(sv)}
						}
						ss = append(ss, fmt.Sprintf("%d:%d:%d", a, k, sv))
						cur.stor[a][k] = sv
					}
				}
				join := func(l []string) string {
					if len(l) == 0 {
						return "-"
					}
					return strings.Join(l, ",")
				}
				o.Op("update %d d=%s acc=%s st=%s", b, join(ds), join(as), join(ss))
				if err := tree.Update(snapRoot(b), snapRoot(tip), destructs, accounts, storage); err != nil {
					ans("err " + err.Error())
					return
				}
				ans("ok")
				content[b] = cur
				tip = b
				if rc.Chance(45) {
					layers := rc.Intn(4)
					if rc.Chance(15) {
						layers = 0
					}
					o.Op("cap %d", layers)
					if err := tree.Cap(snapRoot(tip), layers); err != nil {
						ans("err " + err.Error())
						return
					}
					ans("ok")
					o.Count(fmt.Sprintf("cap:%d", layers))
				}
				// read every root: surviving ones must give their block's content
				var roots []int
				for i := range content {
					roots = append(roots, i)
				}
				sort.Ints(roots)
				for _, i := range roots {
					o.Op("read %d", i)
					got, ok := snapRead(tree, snapRoot(i))
					ans(got)
					if ok {
						o.Count("read:live")
						if want := content[i].String(); got != want {
							o.Violate("c06-flat-state-differs-from-content", fmt.Sprintf("block %d read through the snapshot layers (tip %d): `%s`; the content after applying the blocks in order: `%s`", i, tip, got, want))
						}
					} else if i == tip {
						o.Violate("c06-flat-state-of-head-unavailable", fmt.Sprintf("the snapshot of the head block %d: %s", i, got))
					}
				}
			}
		}()
		o.EndCase(fmt.Sprint(rc.U64()), true)
	}
	o.Close(nil)
}
