package main

import (
	"crypto/sha256"
	"fmt"
	"go/ast"
	"regexp"
	"sort"
	"strings"
)

// Gen/Params.lean: protocol tables read from the source (Qi denominations) and the normalised
// fingerprint of the prime conversion-repricing block of Slice.Append (hand-modelled in Model/Convert).
func init() {
	register("Params", func() string {
		var sb strings.Builder
		// denominations
		b := readFile("core/types/utxo.go")
		re := regexp.MustCompile(`Denominations\[(\d+)\]\s*=\s*big\.NewInt\((\d+)\)`)
		m := map[int]string{}
		for _, x := range re.FindAllStringSubmatch(b, -1) {
			var i int
			fmt.Sscan(x[1], &i)
			m[i] = x[2]
		}
		var idx []int
		for i := range m {
			idx = append(idx, i)
		}
		sort.Ints(idx)
		var ds []string
		for k, i := range idx {
			if i != k {
				errs = append(errs, "denomination table is not dense")
			}
			ds = append(ds, m[i])
		}
		facts["denominations"] = ds
		sb.WriteString("def denominations : List Nat := [" + strings.Join(ds, ", ") + "]\n\n")
		// fingerprint of the conversion pipeline: the statements of Slice.Append between the sort by slip
		// and the "Conversion Stats" log line, printed from the AST (comments and layout do not matter)
		f := parseFile("core/slice.go")
		fp := ""
		if fd := findFunc(f, "Slice", "Append"); fd != nil {
			var block *ast.BlockStmt
			ast.Inspect(fd.Body, func(n ast.Node) bool {
				if bs, ok := n.(*ast.BlockStmt); ok && block == nil {
					s := src(bs)
					if strings.Contains(s, "originalEtxValues := make") && strings.Contains(s, "ConversionRevertType") &&
						!strings.Contains(s, "subInterface") {
						block = bs
					}
				}
				return block == nil
			})
			if block == nil {
				errs = append(errs, "conversion pipeline block of Slice.Append not found")
			} else {
				norm := regexp.MustCompile(`\s+`).ReplaceAllString(stripComments(src(block)), " ")
				fp = fmt.Sprintf("%x", sha256.Sum256([]byte(norm)))
			}
		}
		facts["conv_pipeline_fingerprint"] = fp
		sb.WriteString("def convPipelineFingerprint : String := " + leanStr(fp) + "\n")
		return sb.String()
	})
}

func stripComments(s string) string {
	s = regexp.MustCompile(`(?s)/\*.*?\*/`).ReplaceAllString(s, "")
	return regexp.MustCompile(`//[^\n]*`).ReplaceAllString(s, "")
}
