package main

import (
	"fmt"
	"go/ast"
	"go/token"
	"strings"
)

// Gen/EtxExits.lean: the ordered exits of opETX / opConvert / CreateETX with, for each, whether a status
// word is pushed in the exit's block, whether it lies after the sender debit (SubBalance), whether it is
// the final (success) exit.
func init() {
	register("EtxExits", func() string {
		var sb strings.Builder
		sb.WriteString("structure Exit where\n  pushes : Bool\n  afterDebit : Bool\n  success : Bool\n  unreachableSenderErr : Bool := false\n  isError : Bool := false\n\n")
		fm := map[string]any{}
		for _, t := range []struct{ lean, file, recv, fn string }{
			{"opETXExits", "core/vm/instructions.go", "", "opETX"},
			{"opConvertExits", "core/vm/instructions.go", "", "opConvert"},
			{"createETXExits", "core/vm/evm.go", "EVM", "CreateETX"},
		} {
			f := parseFile(t.file)
			fd := findFunc(f, t.recv, t.fn)
			var rows []string
			var jrows []map[string]bool
			if fd == nil {
				errs = append(errs, "missing function "+t.fn)
			} else {
				var debit token.Pos
				ast.Inspect(fd.Body, func(n ast.Node) bool {
					if c, ok := n.(*ast.CallExpr); ok {
						if se, ok := c.Fun.(*ast.SelectorExpr); ok && se.Sel.Name == "SubBalance" && debit == 0 {
							debit = c.Pos()
						}
					}
					return true
				})
				type ex struct {
					pos                      token.Pos
					pushes, senderErr, isErr bool
				}
				var exits []ex
				var walk func(list []ast.Stmt)
				walk = func(list []ast.Stmt) {
					pushed := false
					for idx, st := range list {
						switch x := st.(type) {
						case *ast.ExprStmt:
							if strings.Contains(src(x), "stack.push(") {
								pushed = true
							}
						case *ast.ReturnStmt:
							e := ex{pos: x.Pos(), pushes: pushed}
							if len(x.Results) > 0 && src(x.Results[len(x.Results)-1]) != "nil" {
								e.isErr = true
							}
							exits = append(exits, e)
						case *ast.IfStmt:
							senderErr := idx > 0 && strings.Contains(src(list[idx-1]), "InternalAndQuaiAddress()") && strings.Contains(src(x.Cond), "err != nil")
							n0 := len(exits)
							walkIf(x, walk)
							if senderErr {
								for i := n0; i < len(exits); i++ {
									exits[i].senderErr = true
								}
							}
						case *ast.BlockStmt:
							walk(x.List)
						case *ast.ForStmt:
							walk(x.Body.List)
						case *ast.RangeStmt:
							walk(x.Body.List)
						}
					}
				}
				walk(fd.Body.List)
				for i, e := range exits {
					success := i == len(exits)-1
					after := debit != 0 && e.pos > debit
					rows = append(rows, fmt.Sprintf("  { pushes := %s, afterDebit := %s, success := %s, unreachableSenderErr := %s, isError := %s }",
						leanBool(e.pushes), leanBool(after), leanBool(success), leanBool(e.senderErr), leanBool(e.isErr)))
					jrows = append(jrows, map[string]bool{"pushes": e.pushes, "afterDebit": after, "success": success, "senderErr": e.senderErr, "isError": e.isErr})
				}
			}
			fm[t.lean] = jrows
			sb.WriteString("def " + t.lean + " : List Exit := [\n" + strings.Join(rows, ",\n") + "]\n\n")
		}
		facts["etx_exits"] = fm
		return sb.String()
	})
}

func walkIf(x *ast.IfStmt, walk func([]ast.Stmt)) {
	walk(x.Body.List)
	switch e := x.Else.(type) {
	case *ast.BlockStmt:
		walk(e.List)
	case *ast.IfStmt:
		walkIf(e, walk)
	}
}
