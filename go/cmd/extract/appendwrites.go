package main

import (
	"go/ast"
)

// Gen/AppendWrites.lean: does BodyDb.Append (core/bodydb.go) put the head block hash into the block's own batch
// before that batch is committed?
func init() {
	register("AppendWrites", func() string {
		f := parseFile("core/bodydb.go")
		fd := findFunc(f, "BodyDb", "Append")
		inBatch := false
		if fd == nil {
			errs = append(errs, "BodyDb.Append not found")
		} else {
			headPos, writePos := -1, -1
			ast.Inspect(fd.Body, func(n ast.Node) bool {
				if c, ok := n.(*ast.CallExpr); ok {
					switch src(c.Fun) {
					case "rawdb.WriteHeadBlockHash":
						if len(c.Args) > 0 && src(c.Args[0]) == "batch" {
							headPos = int(c.Pos())
						}
					case "batch.Write":
						writePos = int(c.Pos())
					}
				}
				return true
			})
			inBatch = headPos >= 0 && writePos >= 0 && headPos < writePos
		}
		facts["append_batch_writes_head"] = inBatch
		return "def appendBatchWritesHead : Bool := " + leanBool(inBatch)
	})
}
