package main

import (
	"fmt"
	"go/ast"
	"sort"
	"strings"
)

// Gen/JumpTable.lean: for every opcode entry of core/vm/jump_table.go, whether it declares a memorySize
// function and whether its dynamicGas function (transitively, within package vm's gas tables) charges the
// memory-expansion cost (reaches memoryGasCost).
func init() {
	register("JumpTable", func() string {
		// 1. gas functions and which of them reach memoryGasCost
		calls := map[string]map[string]bool{} // func or var name -> identifiers referenced
		for _, file := range []string{"core/vm/gas_table.go", "core/vm/operations_acl.go", "core/vm/eips.go"} {
			f := parseFile(file)
			if f == nil {
				continue
			}
			for _, d := range f.Decls {
				switch x := d.(type) {
				case *ast.FuncDecl:
					if x.Body != nil {
						calls[x.Name.Name] = idents(x.Body)
					}
				case *ast.GenDecl:
					for _, sp := range x.Specs {
						if vs, ok := sp.(*ast.ValueSpec); ok {
							for i, n := range vs.Names {
								if i < len(vs.Values) {
									calls[n.Name] = idents(vs.Values[i])
								}
							}
						}
					}
				}
			}
		}
		reaches := map[string]bool{"memoryGasCost": true}
		for changed := true; changed; {
			changed = false
			for fn, ids := range calls {
				if reaches[fn] {
					continue
				}
				for id := range ids {
					if reaches[id] {
						reaches[fn] = true
						changed = true
						break
					}
				}
			}
		}
		// 2. jump table entries (the last instruction set constructor holds every opcode)
		type ent struct {
			hasMem  bool
			dyn     string
			charges bool
		}
		table := map[string]ent{}
		fromLit := func(cl *ast.CompositeLit) (ent, bool) {
			isOp := false
			e := ent{}
			for _, el := range cl.Elts {
				if fkv, ok := el.(*ast.KeyValueExpr); ok {
					switch src(fkv.Key) {
					case "execute":
						isOp = true
					case "memorySize":
						e.hasMem = true
					case "dynamicGas":
						e.dyn = src(fkv.Value)
						for id := range idents(fkv.Value) {
							if reaches[id] {
								e.charges = true
							}
						}
					}
				}
			}
			return e, isOp
		}
		put := func(name string, e ent) {
			// an opcode may be (re)defined in several places: an uncharged memory-growing variant anywhere counts
			if old, ok := table[name]; ok && old.hasMem && !old.charges {
				return
			}
			table[name] = e
		}
		for _, file := range []string{"core/vm/jump_table.go", "core/vm/eips.go"} {
			f := parseFile(file)
			if f == nil {
				continue
			}
			ast.Inspect(f, func(n ast.Node) bool {
				switch x := n.(type) {
				case *ast.KeyValueExpr: // OP: {execute: …}
					if cl, ok := x.Value.(*ast.CompositeLit); ok {
						if e, isOp := fromLit(cl); isOp {
							put(src(x.Key), e)
						}
					}
				case *ast.AssignStmt: // jt[OP] = &operation{…}   |   jt[OP].dynamicGas = f
					if len(x.Lhs) != 1 || len(x.Rhs) != 1 {
						return true
					}
					if ix, ok := x.Lhs[0].(*ast.IndexExpr); ok {
						rhs := x.Rhs[0]
						if u, ok := rhs.(*ast.UnaryExpr); ok {
							rhs = u.X
						}
						if cl, ok := rhs.(*ast.CompositeLit); ok {
							if e, isOp := fromLit(cl); isOp {
								put(src(ix.Index), e)
							}
						}
					}
					if se, ok := x.Lhs[0].(*ast.SelectorExpr); ok {
						if ix, ok := se.X.(*ast.IndexExpr); ok {
							name := src(ix.Index)
							e := table[name]
							switch se.Sel.Name {
							case "dynamicGas":
								e.dyn = src(x.Rhs[0])
								e.charges = false
								for id := range idents(x.Rhs[0]) {
									if reaches[id] {
										e.charges = true
									}
								}
								table[name] = e
							case "memorySize":
								e.hasMem = src(x.Rhs[0]) != "nil"
								table[name] = e
							}
						}
					}
				}
				return true
			})
		}
		var names []string
		for k := range table {
			names = append(names, k)
		}
		sort.Strings(names)
		var rows []string
		fm := map[string]any{}
		for _, k := range names {
			e := table[k]
			rows = append(rows, fmt.Sprintf("  (%s, %s, %s)", leanStr(k), leanBool(e.hasMem), leanBool(e.charges)))
			if e.hasMem {
				fm[k] = map[string]any{"dynamicGas": e.dyn, "charges_memory": e.charges}
			}
		}
		facts["memory_ops"] = fm
		return "/-- (opcode, declares memorySize, its dynamic gas charges memory expansion) -/\ndef opTable : List (String × Bool × Bool) := [\n" + strings.Join(rows, ",\n") + "]"
	})
}

func idents(n ast.Node) map[string]bool {
	m := map[string]bool{}
	ast.Inspect(n, func(x ast.Node) bool {
		if id, ok := x.(*ast.Ident); ok {
			m[id.Name] = true
		}
		return true
	})
	return m
}
