package main

import (
	"fmt"
	"os"
	"path/filepath"
	"regexp"
	"sort"
	"strings"
)

// Gen/Schemas.lean: the protobuf message schemas of the wire / database objects, parsed from the
// .proto sources (field number, label, type).
func init() {
	register("Schemas", func() string {
		files := []string{"common/proto_common.proto", "core/types/proto_block.proto", "core/rawdb/db.proto", "p2p/pb/quai_messages.proto"}
		msgRe := regexp.MustCompile(`(?s)message\s+(\w+)\s*\{(.*?)\}`)
		fieldRe := regexp.MustCompile(`(?m)^\s*(optional|repeated)?\s*([\w.]+)\s+(\w+)\s*=\s*(\d+)\s*;`)
		type fld struct {
			num      int
			repeated bool
			ty       string
		}
		msgs := map[string][]fld{}
		for _, rel := range files {
			b, err := os.ReadFile(filepath.Join(repo, rel))
			if err != nil {
				errs = append(errs, "read "+rel+": "+err.Error())
				continue
			}
			src := regexp.MustCompile(`//[^\n]*`).ReplaceAllString(string(b), "")
			// flatten oneof blocks: their fields are ordinary optional fields on the wire
			src = regexp.MustCompile(`oneof\s+\w+\s*\{([^}]*)\}`).ReplaceAllString(src, "$1")
			for _, m := range msgRe.FindAllStringSubmatch(src, -1) {
				var fs []fld
				for _, f := range fieldRe.FindAllStringSubmatch(m[2], -1) {
					n := 0
					fmt.Sscan(f[4], &n)
					ty := f[2]
					if i := strings.LastIndex(ty, "."); i >= 0 {
						ty = ty[i+1:]
					}
					fs = append(fs, fld{n, f[1] == "repeated", ty})
				}
				msgs[m[1]] = fs
			}
		}
		var names []string
		for k := range msgs {
			names = append(names, k)
		}
		sort.Strings(names)
		var rows []string
		fm := map[string]int{}
		for _, n := range names {
			var fl []string
			for _, f := range msgs[n] {
				ty := ""
				switch f.ty {
				case "uint64", "int64":
					ty = ".u64"
				case "uint32", "int32":
					ty = ".u32"
				case "bytes":
					ty = ".bytes"
				case "string":
					ty = ".str"
				case "bool":
					ty = ".bool_"
				default:
					ty = "(.msg " + leanStr(f.ty) + ")"
				}
				fl = append(fl, fmt.Sprintf("{ num := %d, repeated := %s, ty := %s }", f.num, leanBool(f.repeated), ty))
			}
			rows = append(rows, fmt.Sprintf("  (%s, [%s])", leanStr(n), strings.Join(fl, ", ")))
			fm[n] = len(msgs[n])
		}
		facts["proto_messages"] = fm
		return "import QuaiVerif.Model.Proto\nopen QuaiVerif.Proto in\ndef schemas : QuaiVerif.Proto.Schema := [\n" + strings.Join(rows, ",\n") + "]"
	})
}
