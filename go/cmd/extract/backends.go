package main

import (
	"fmt"
	"go/ast"
	"strings"
)

// Gen/Backends.lean: for each batch type, does it track pending writes?  A batch type is untracked
// when its SetPending body is empty or its GetPending body is the constant `return false, nil`.
func init() {
	register("Backends", func() string {
		type bt struct{ name, file, recv string }
		list := []bt{
			{"leveldb", "ethdb/leveldb/leveldb.go", "batch"},
			{"pebble", "ethdb/pebble/pebble.go", "batch"},
			{"memorydb", "ethdb/memorydb/memorydb.go", "batch"},
			{"table", "core/rawdb/table.go", "tableBatch"},
		}
		var rows []string
		fm := map[string]bool{}
		for _, b := range list {
			f := parseFile(b.file)
			sp := findFunc(f, b.recv, "SetPending")
			gp := findFunc(f, b.recv, "GetPending")
			tracks := sp != nil && gp != nil && len(sp.Body.List) > 0 && !constFalseNil(gp) && writesPendingOnPutDelete(f, b.recv)
			rows = append(rows, fmt.Sprintf("(%s, %s)", leanStr(b.name), leanBool(tracks)))
			fm[b.name] = tracks
		}
		facts["backends_track"] = fm
		return "/-- (batch type, tracks pending writes) -/\ndef backends : List (String × Bool) := [" + strings.Join(rows, ", ") + "]"
	})
}

func constFalseNil(fd *ast.FuncDecl) bool {
	if len(fd.Body.List) != 1 {
		return false
	}
	r, ok := fd.Body.List[0].(*ast.ReturnStmt)
	if !ok || len(r.Results) != 2 {
		return false
	}
	return src(r.Results[0]) == "false" && src(r.Results[1]) == "nil"
}

// Put and Delete must mention the pending structure (or forward to an inner batch, for wrappers).
func writesPendingOnPutDelete(f *ast.File, recv string) bool {
	for _, m := range []string{"Put", "Delete"} {
		fd := findFunc(f, recv, m)
		if fd == nil {
			return false
		}
		s := src(fd.Body)
		if !strings.Contains(s, "pending") && !strings.Contains(s, ".batch.") {
			return false
		}
	}
	return true
}
