package main

import (
	"go/ast"
	"strings"
)

// Gen/LockupFacts.lean: (S7) does AddNewLock serialise the undo record with the old delegate;
// (S3) does EVM.revertToSnapshot write claimed lockup records back into the batch.
func init() {
	register("LockupFacts", func() string {
		f := parseFile("core/vm/contracts.go")
		undoOld := false
		if fd := findFunc(f, "", "AddNewLock"); fd != nil {
			ast.Inspect(fd.Body, func(n ast.Node) bool {
				if c, ok := n.(*ast.CallExpr); ok && strings.HasSuffix(src(c.Fun), "WriteCoinbaseLockupToSlice") && len(c.Args) == 4 {
					undoOld = src(c.Args[3]) == "oldDelegate"
				}
				return true
			})
		} else {
			errs = append(errs, "AddNewLock not found")
		}
		g := parseFile("core/vm/evm.go")
		restores := false
		if fd := findFunc(g, "EVM", "revertToSnapshot"); fd != nil {
			s := src(fd.Body)
			restores = strings.Contains(s, "Batch.Put(") && strings.Contains(s, "CoinbasesDeleted")
		} else {
			errs = append(errs, "EVM.revertToSnapshot not found")
		}
		facts["lockup_undo_uses_old_delegate"] = undoOld
		facts["revert_restores_lockup_batch"] = restores
		return "def lockupUndoUsesOldDelegate : Bool := " + leanBool(undoOld) + "\ndef revertRestoresLockupBatch : Bool := " + leanBool(restores)
	})
}
