package main

import (
	"go/ast"
	"strings"
)

// Gen/Rollback.lean: the ordered list of ledger writes in the rollback loop of HeaderChain.SetCurrentHeader
// (core/headerchain.go), each tagged with what it iterates over and whether it goes through the per-block batch.
func init() {
	register("Rollback", func() string {
		f := parseFile("core/headerchain.go")
		fd := findFunc(f, "HeaderChain", "SetCurrentHeader")
		var out []string
		if fd == nil {
			errs = append(errs, "SetCurrentHeader not found")
		} else {
			// the rollback loop = the for statement whose body reads the spent-UTXO undo record
			var loop *ast.ForStmt
			ast.Inspect(fd.Body, func(n ast.Node) bool {
				if fs, ok := n.(*ast.ForStmt); ok && loop == nil && strings.Contains(src(fs.Body), "ReadSpentUTXOs") {
					loop = fs
					return false
				}
				return true
			})
			if loop == nil {
				errs = append(errs, "rollback loop not found in SetCurrentHeader")
			} else {
				appended := strings.Contains(src(loop.Body), "sutxos = append(sutxos, trimmedUtxos...)")
				var walk func(n ast.Node, over string)
				walk = func(n ast.Node, over string) {
					switch x := n.(type) {
					case *ast.IfStmt:
						if strings.Contains(src(x.Cond), "IndexAddressUtxos") {
							return // the optional address index is not part of the ledger model
						}
						if x.Init != nil {
							walk(x.Init, over)
						}
						walk(x.Body, over)
						if x.Else != nil {
							walk(x.Else, over)
						}
					case *ast.BlockStmt:
						for _, st := range x.List {
							walk(st, over)
						}
					case *ast.RangeStmt:
						walk(x.Body, src(x.X))
					case *ast.ForStmt:
						o := "loop"
						if x.Init != nil && strings.Contains(src(x.Init), "len(deletedCoinbases) - 1") && strings.Contains(src(x.Post), "--") {
							o = "deletedCoinbases,reverse"
						} else if x.Init != nil && strings.Contains(src(x.Cond), "len(deletedCoinbases)") {
							o = "deletedCoinbases,forward"
						}
						walk(x.Body, o)
					case *ast.ExprStmt, *ast.AssignStmt:
						ast.Inspect(x, func(m ast.Node) bool {
							c, ok := m.(*ast.CallExpr)
							if !ok {
								return true
							}
							fn := src(c.Fun)
							arg0 := ""
							if len(c.Args) > 0 {
								arg0 = src(c.Args[0])
							}
							via := func() string {
								if arg0 == "batch" {
									return "batch"
								}
								return "db"
							}
							switch {
							case fn == "rawdb.CreateUTXO" && over == "sutxos":
								if appended {
									out = append(out, "CreateUTXO(spent++trimmed)")
								} else {
									out = append(out, "CreateUTXO(spent)")
								}
							case fn == "batch.Delete" && over == "utxoKeys":
								out = append(out, "Delete(createdUTXOKeys)")
							case fn == "batch.Put" && strings.HasPrefix(over, "deletedCoinbases"):
								out = append(out, "Put(deletedLockups,"+strings.TrimPrefix(over, "deletedCoinbases,")+")")
							case fn == "batch.Delete" && over == "createdCoinbaseKeys":
								out = append(out, "Delete(createdLockupKeys)")
							case fn == "rawdb.WriteHeadBlockHash":
								out = append(out, "WriteHeadBlockHash("+via()+")")
							case fn == "rawdb.WriteCanonicalHash":
								out = append(out, "WriteCanonicalHash("+via()+")")
							case fn == "batch.Write":
								out = append(out, "batch.Write")
							case fn == "batch.Delete" || fn == "batch.Put":
								out = append(out, fn+"(?"+over+")")
							}
							return true
						})
					}
				}
				walk(loop.Body, "")
			}
		}
		facts["rollback_writes"] = out
		return "def rollbackWrites : List String := " + leanStrList(out)
	})
}
