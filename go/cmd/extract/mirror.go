package main

import (
	"crypto/sha256"
	"encoding/hex"
	"go/ast"
	"go/token"
	"regexp"
	"sort"
	"strings"
)

// Gen/Mirror.lean: the block assembler (core/worker.go commitTransaction) re-implements what the validator
// (core/state_processor.go Process) does with inbound ETXs.  For the ledger-changing calls both make - vm.AddNewLock,
// rawdb.CreateUTXO, vm.RedeemLockedQuai - the argument lists are extracted from both files, the names that differ only
// because of the surrounding code (state / batch / location / logger / the transaction variable / the block) are
// normalised, and a local variable passed as an argument is followed to the expression it was assigned from.  The Lean
// side proves that the two lists of calls are the same list: the assembler locks / mints / redeems what the validator does.
func init() {
	register("Mirror", func() string {
		calls := []string{"AddNewLock", "AddBalance"}
		w := mirrorCalls("core/worker.go", "worker", "commitTransaction", calls)
		p := mirrorCalls("core/state_processor.go", "StateProcessor", "Process", calls)
		facts["mirror_worker"] = w
		facts["mirror_processor"] = p
		// (the Lean side compares short fingerprints of the normalised calls; the calls themselves are in facts.json)
		fp := func(l []string) []string {
			var r []string
			for _, s := range l {
				h := sha256.Sum256([]byte(s))
				r = append(r, s[:strings.Index(s, "(")]+":"+hex.EncodeToString(h[:8]))
			}
			return r
		}
		var sb strings.Builder
		sb.WriteString("def mirrorWorker : List String := [" + leanList(fp(w)) + "]\n")
		sb.WriteString("def mirrorProcessor : List String := [" + leanList(fp(p)) + "]")
		return sb.String()
	})
}

func leanList(l []string) string {
	var q []string
	for _, s := range l {
		q = append(q, leanStr(s))
	}
	return strings.Join(q, ", ")
}

var mirrorRepl = []struct{ re, to string }{
	{`\benv\.state\b|\bstatedb\b`, "STATE"},
	{`\benv\.batch\b|\bbatch\b`, "BATCH"},
	{`\bw\.chainConfig\.Location\b|\bnodeLocation\b`, "LOC"},
	{`\bw\.logger\b|\bp\.logger\b`, "LOG"},
	{`\bparent\.ParentHash\(common\.ZONE_CTX\)|\bblock\.ParentHash\(common\.ZONE_CTX\)`, "PARENTHASH"},
	{`\benv\.coinbaseLatestEpoch\b|\bcoinbaseLockupEpoch\b`, "EPOCH"},
	{`\benv\.wo\.NumberU64\(common\.ZONE_CTX\)|\bblock\.NumberU64\(common\.ZONE_CTX\)`, "BLOCKNUMBER"},
	{`\betx\b|\btx\b`, "TX"},
}

func mirrorNorm(s string) string {
	for _, r := range mirrorRepl {
		s = regexp.MustCompile(r.re).ReplaceAllString(s, r.to)
	}
	return strings.Join(strings.Fields(s), " ")
}

// mirrorCalls lists, in source order, "callee(arg, arg, ...)" for the named callees inside recv.fn; identifier
// arguments are followed to their nearest preceding assignment inside the function.
func mirrorCalls(file, recv, fn string, callees []string) []string {
	f := parseFile(file)
	fd := findFunc(f, recv, fn)
	if fd == nil {
		errs = append(errs, file+": "+recv+"."+fn+" not found")
		return nil
	}
	type asg struct {
		pos token.Pos
		rhs string
	}
	assigns := map[string][]asg{}
	ast.Inspect(fd.Body, func(n ast.Node) bool {
		if a, ok := n.(*ast.AssignStmt); ok && len(a.Lhs) == len(a.Rhs) {
			for i, l := range a.Lhs {
				if id, ok := l.(*ast.Ident); ok {
					assigns[id.Name] = append(assigns[id.Name], asg{a.Pos(), src(a.Rhs[i])})
				}
			}
		}
		return true
	})
	type found struct {
		pos token.Pos
		s   string
	}
	var out []found
	ast.Inspect(fd.Body, func(n ast.Node) bool {
		c, ok := n.(*ast.CallExpr)
		if !ok {
			return true
		}
		name := src(c.Fun)
		match := ""
		for _, cal := range callees {
			if name == cal || strings.HasSuffix(name, "."+cal) {
				match = cal
			}
		}
		if match == "" {
			return true
		}
		var args []string
		for i, a := range c.Args {
			if i == len(c.Args)-1 {
				if id, ok := a.(*ast.Ident); ok && (id.Name == "true" || id.Name == "false") {
					continue // the "called from the validator" flag
				}
			}
			s := src(a)
			if id, ok := a.(*ast.Ident); ok && mirrorNorm(id.Name) == id.Name {
				best := ""
				var bp token.Pos
				for _, as := range assigns[id.Name] {
					if as.pos < c.Pos() && as.pos > bp {
						bp, best = as.pos, as.rhs
					}
				}
				// only follow computed values (calls): plain copies and declarations say nothing
				if strings.Contains(best, "(") && !strings.HasPrefix(best, "common.BytesToAddress") {
					s = id.Name + "=" + best
				}
			}
			args = append(args, mirrorNorm(s))
		}
		out = append(out, found{c.Pos(), match + "(" + strings.Join(args, ", ") + ")"})
		return true
	})
	sort.Slice(out, func(i, j int) bool { return out[i].pos < out[j].pos })
	var r []string
	for _, o := range out {
		// the local variable names themselves may differ: keep only what they were computed from
		r = append(r, regexp.MustCompile(`\b(value|reward|lockup)=`).ReplaceAllString(o.s, "$1="))
	}
	return r
}
