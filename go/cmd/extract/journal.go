package main

import (
	"fmt"
	"go/ast"
	"sort"
	"strings"
)

// Gen/Journal.lean: for every journal entry kind of core/state/journal.go, which low-level setters its
// revert calls (the fields it restores); and whether Suicide's size write is journalled.
func init() {
	register("Journal", func() string {
		f := parseFile("core/state/journal.go")
		rows := map[string][]string{}
		if f != nil {
			for _, d := range f.Decls {
				fd, ok := d.(*ast.FuncDecl)
				if !ok || fd.Name.Name != "revert" || fd.Recv == nil {
					continue
				}
				recv := src(fd.Recv.List[0].Type)
				if recv == "*journal" {
					continue
				}
				set := map[string]bool{}
				ast.Inspect(fd.Body, func(n ast.Node) bool {
					switch x := n.(type) {
					case *ast.CallExpr:
						if se, ok := x.Fun.(*ast.SelectorExpr); ok {
							set[se.Sel.Name] = true
						}
						if id, ok := x.Fun.(*ast.Ident); ok {
							set[id.Name] = true
						}
					case *ast.AssignStmt:
						for _, l := range x.Lhs {
							set["="+lastSel(l)] = true
						}
					case *ast.IncDecStmt:
						set["="+lastSel(x.X)] = true
					}
					return true
				})
				var l []string
				for k := range set {
					l = append(l, k)
				}
				sort.Strings(l)
				rows[recv] = l
			}
		}
		var kinds []string
		for k := range rows {
			kinds = append(kinds, k)
		}
		sort.Strings(kinds)
		var out []string
		for _, k := range kinds {
			var q []string
			for _, x := range rows[k] {
				q = append(q, leanStr(x))
			}
			out = append(out, fmt.Sprintf("  (%s, [%s])", leanStr(k), strings.Join(q, ", ")))
		}
		facts["journal_reverts"] = rows
		sr := false
		for _, x := range rows["suicideChange"] {
			if x == "setSize" || x == "SetSize" {
				sr = true
			}
		}
		// and Suicide must record it
		sf := parseFile("core/state/statedb.go")
		if fd := findFunc(sf, "StateDB", "Suicide"); fd == nil || !strings.Contains(src(fd.Body), "prevsize") {
			sr = false
		}
		facts["suicide_restores_size"] = sr
		return "/-- journal entry kind ↦ setters / assigned fields its `revert` uses -/\ndef journalReverts : List (String × List String) := [\n" +
			strings.Join(out, ",\n") + "]\n\ndef suicideRestoresSize : Bool := " + leanBool(sr)
	})
}

func lastSel(e ast.Expr) string {
	switch x := e.(type) {
	case *ast.SelectorExpr:
		return x.Sel.Name
	case *ast.IndexExpr:
		return lastSel(x.X)
	case *ast.Ident:
		return x.Name
	}
	return "?"
}
