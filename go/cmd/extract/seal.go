package main

import (
	"go/ast"
	"sort"
	"strings"
)

// Gen/Seal.lean: the fields of WorkObjectHeader / Header (core/types/wo.go, block.go) and the proto keys their
// SealEncode functions fill (the seal hash / header hash pre-image), lower-cased.
func structFields(f *ast.File, name string) []string {
	var out []string
	ast.Inspect(f, func(n ast.Node) bool {
		ts, ok := n.(*ast.TypeSpec)
		if !ok || ts.Name.Name != name {
			return true
		}
		if st, ok := ts.Type.(*ast.StructType); ok {
			for _, fl := range st.Fields.List {
				for _, nm := range fl.Names {
					out = append(out, strings.ToLower(nm.Name))
				}
			}
		}
		return false
	})
	return out
}

// sealKeys: keys of the composite literal of protoType in fd, plus fields assigned / appended on the variable
// holding it; keys set inside an `if` are reported separately (conditional)
func sealKeys(fd *ast.FuncDecl, protoType string) (always, conditional []string) {
	if fd == nil {
		return
	}
	a, c := map[string]bool{}, map[string]bool{}
	varName := ""
	var walk func(n ast.Node, inIf bool)
	walk = func(n ast.Node, inIf bool) {
		ast.Inspect(n, func(m ast.Node) bool {
			switch x := m.(type) {
			case *ast.IfStmt:
				if strings.Contains(src(x.Cond), "!= nil") {
					// `if h.X(i) != nil { append }` guards a nil element, it does not make the field optional
					walk(x.Body, inIf)
				} else {
					walk(x.Body, true)
				}
				if x.Else != nil {
					walk(x.Else, true)
				}
				return false
			case *ast.AssignStmt:
				for i, lhs := range x.Lhs {
					if id, ok := lhs.(*ast.Ident); ok && i < len(x.Rhs) {
						if u, ok := x.Rhs[i].(*ast.UnaryExpr); ok {
							if cl, ok := u.X.(*ast.CompositeLit); ok && src(cl.Type) == protoType {
								varName = id.Name
								for _, el := range cl.Elts {
									if kv, ok := el.(*ast.KeyValueExpr); ok {
										a[strings.ToLower(src(kv.Key))] = true
									}
								}
							}
						}
					}
					if se, ok := lhs.(*ast.SelectorExpr); ok && varName != "" && src(se.X) == varName {
						if inIf {
							c[strings.ToLower(se.Sel.Name)] = true
						} else {
							a[strings.ToLower(se.Sel.Name)] = true
						}
					}
				}
			}
			return true
		})
	}
	walk(fd.Body, false)
	for k := range a {
		always = append(always, k)
	}
	for k := range c {
		if !a[k] {
			conditional = append(conditional, k)
		}
	}
	sort.Strings(always)
	sort.Strings(conditional)
	return
}

// sealSources: for every proto key a SealEncode fills with a plain expression, the receiver field or getter the value
// comes from (through at most one local variable), both lower-cased: ("scryptsharetarget", "scryptsharetarget").
// Keys filled in loops / appends are not listed.
func sealSources(fd *ast.FuncDecl, protoType string) [][2]string {
	if fd == nil || fd.Recv == nil || len(fd.Recv.List) == 0 || len(fd.Recv.List[0].Names) == 0 {
		return nil
	}
	recv := fd.Recv.List[0].Names[0].Name
	locals := map[string]ast.Expr{}
	fromRecv := func(e ast.Expr) string {
		name := ""
		ast.Inspect(e, func(m ast.Node) bool {
			if name != "" {
				return false
			}
			if se, ok := m.(*ast.SelectorExpr); ok {
				if id, ok := se.X.(*ast.Ident); ok && id.Name == recv {
					name = strings.ToLower(se.Sel.Name)
					return false
				}
			}
			return true
		})
		return name
	}
	source := func(e ast.Expr) string {
		if u, ok := e.(*ast.UnaryExpr); ok {
			e = u.X
		}
		if id, ok := e.(*ast.Ident); ok {
			if d, ok := locals[id.Name]; ok {
				return fromRecv(d)
			}
			return ""
		}
		return fromRecv(e)
	}
	var out [][2]string
	varName := ""
	ast.Inspect(fd.Body, func(m ast.Node) bool {
		as, ok := m.(*ast.AssignStmt)
		if !ok {
			return true
		}
		for i, lhs := range as.Lhs {
			if i >= len(as.Rhs) {
				break
			}
			if id, ok := lhs.(*ast.Ident); ok {
				if u, ok := as.Rhs[i].(*ast.UnaryExpr); ok {
					if cl, ok := u.X.(*ast.CompositeLit); ok && src(cl.Type) == protoType {
						varName = id.Name
						for _, el := range cl.Elts {
							if kv, ok := el.(*ast.KeyValueExpr); ok {
								if s := source(kv.Value); s != "" {
									out = append(out, [2]string{strings.ToLower(src(kv.Key)), s})
								}
							}
						}
						continue
					}
				}
				if as.Tok.String() == ":=" {
					locals[id.Name] = as.Rhs[i]
				}
			}
			if se, ok := lhs.(*ast.SelectorExpr); ok && varName != "" && src(se.X) == varName {
				if s := source(as.Rhs[i]); s != "" {
					out = append(out, [2]string{strings.ToLower(se.Sel.Name), s})
				}
			}
		}
		return true
	})
	sort.Slice(out, func(i, j int) bool { return out[i][0] < out[j][0] })
	return out
}

func leanPairList(l [][2]string) string {
	var parts []string
	for _, p := range l {
		parts = append(parts, "(\"" + p[0] + "\", \"" + p[1] + "\")")
	}
	return "[" + strings.Join(parts, ", ") + "]"
}

func init() {
	register("Seal", func() string {
		wo := parseFile("core/types/wo.go")
		bl := parseFile("core/types/block.go")
		wf := structFields(wo, "WorkObjectHeader")
		hf := structFields(bl, "Header")
		wa, wc := sealKeys(findFunc(wo, "WorkObjectHeader", "SealEncode"), "ProtoWorkObjectHeader")
		ha, hcnd := sealKeys(findFunc(bl, "Header", "SealEncode"), "ProtoHeader")
		if len(wf) == 0 || len(hf) == 0 || len(wa) == 0 || len(ha) == 0 {
			errs = append(errs, "seal: struct or SealEncode not found")
		}
		facts["wo_header_fields"] = wf
		facts["wo_seal_keys"] = wa
		facts["wo_seal_keys_conditional"] = wc
		facts["header_fields"] = hf
		facts["header_seal_keys"] = append(append([]string{}, ha...), hcnd...)
		return "def woHeaderFields : List String := " + leanStrList(wf) +
			"\ndef woSealKeys : List String := " + leanStrList(wa) +
			"\ndef woSealKeysAfterKawpow : List String := " + leanStrList(wc) +
			"\ndef headerFields : List String := " + leanStrList(hf) +
			"\ndef headerSealKeys : List String := " + leanStrList(append(append([]string{}, ha...), hcnd...)) +
			"\ndef woSealSources : List (String × String) := " + leanPairList(sealSources(findFunc(wo, "WorkObjectHeader", "SealEncode"), "ProtoWorkObjectHeader")) +
			"\ndef headerSealSources : List (String × String) := " + leanPairList(sealSources(findFunc(bl, "Header", "SealEncode"), "ProtoHeader"))
	})
}
