package main

import (
	"go/ast"
	"sort"
	"strings"
)

// Gen/Validator.lean: which header fields the validating side compares with a recomputed value.  For each of the
// validating functions, the set of getters called on the block / header inside the condition of an `if` whose
// body returns an error.
func rejectingCompares(fd *ast.FuncDecl, recvNames map[string]bool) []string {
	set := map[string]bool{}
	if fd == nil {
		return nil
	}
	ast.Inspect(fd.Body, func(n ast.Node) bool {
		is, ok := n.(*ast.IfStmt)
		if !ok {
			return true
		}
		rejects := false
		for _, st := range is.Body.List {
			if r, ok := st.(*ast.ReturnStmt); ok && len(r.Results) > 0 {
				if id, ok := r.Results[len(r.Results)-1].(*ast.Ident); !ok || id.Name != "nil" {
					rejects = true
				}
			}
		}
		if !rejects {
			return true
		}
		var where []ast.Node
		if is.Init != nil {
			where = append(where, is.Init)
		}
		where = append(where, is.Cond)
		for _, w := range where {
			ast.Inspect(w, func(m ast.Node) bool {
				if c, ok := m.(*ast.CallExpr); ok {
					if s, ok := c.Fun.(*ast.SelectorExpr); ok {
						// header.X(), block.X(), header.WorkObjectHeader().X(), block.Header().X()
						root := s.X
						for {
							if cc, ok := root.(*ast.CallExpr); ok {
								if ss, ok := cc.Fun.(*ast.SelectorExpr); ok {
									root = ss.X
									continue
								}
							}
							break
						}
						if id, ok := root.(*ast.Ident); ok && recvNames[id.Name] {
							set[s.Sel.Name] = true
						}
					}
				}
				return true
			})
		}
		return true
	})
	var out []string
	for k := range set {
		out = append(out, k)
	}
	sort.Strings(out)
	return out
}

func leanStrList(l []string) string {
	q := make([]string, len(l))
	for i, s := range l {
		q[i] = leanStr(s)
	}
	return "[" + strings.Join(q, ", ") + "]"
}

func init() {
	register("Validator", func() string {
		bv := parseFile("core/block_validator.go")
		sp := parseFile("core/state_processor.go")
		hv := parseFile("core/headerchain_validation.go")
		names := map[string]bool{"header": true, "block": true}
		vs := rejectingCompares(findFunc(bv, "BlockValidator", "ValidateState"), names)
		vb := rejectingCompares(findFunc(bv, "BlockValidator", "ValidateBody"), names)
		pr := rejectingCompares(findFunc(sp, "StateProcessor", "Process"), names)
		vh := rejectingCompares(findFunc(hv, "HeaderChain", "verifyHeader"), map[string]bool{"header": true})
		for n, l := range map[string][]string{"ValidateState": vs, "ValidateBody": vb, "Process": pr, "verifyHeader": vh} {
			if len(l) == 0 {
				errs = append(errs, n+": no rejecting comparison found")
			}
		}
		facts["validate_state_compares"] = vs
		facts["validate_body_compares"] = vb
		facts["process_compares"] = pr
		facts["verify_header_compares"] = vh
		return "def validateStateCompares : List String := " + leanStrList(vs) +
			"\ndef validateBodyCompares : List String := " + leanStrList(vb) +
			"\ndef processCompares : List String := " + leanStrList(pr) +
			"\ndef verifyHeaderCompares : List String := " + leanStrList(vh)
	})
}
