package main

import (
	"fmt"
	"go/ast"
	"sort"
	"strings"
)

// Gen/TxFields.lean: per transaction type, the proto fields written by Transaction.ProtoEncode (the
// full encoding, what the tx hash covers) and by ProtoEncodeTxSigningData (what the signature covers).
func init() {
	register("TxFields", func() string {
		f := parseFile("core/types/transaction.go")
		out := ""
		fm := map[string]any{}
		for _, t := range []struct{ lean, fn string }{{"txEncodeFields", "ProtoEncode"}, {"txSigningFields", "ProtoEncodeTxSigningData"}} {
			fd := findFunc(f, "Transaction", t.fn)
			per := map[string]map[string]bool{"QuaiTxType": {}, "ExternalTxType": {}, "QiTxType": {}}
			if fd == nil {
				errs = append(errs, "missing Transaction."+t.fn)
			} else {
				common := map[string]bool{}
				collect := func(n ast.Node, into map[string]bool) {
					ast.Inspect(n, func(x ast.Node) bool {
						if as, ok := x.(*ast.AssignStmt); ok {
							for _, l := range as.Lhs {
								if se, ok := l.(*ast.SelectorExpr); ok {
									if id, ok := se.X.(*ast.Ident); ok && strings.HasPrefix(id.Name, "protoTx") {
										into[se.Sel.Name] = true
									}
								}
							}
						}
						return true
					})
				}
				for _, st := range fd.Body.List {
					if sw, ok := st.(*ast.SwitchStmt); ok {
						for _, c := range sw.Body.List {
							cc := c.(*ast.CaseClause)
							for _, e := range cc.List {
								if m, ok := per[src(e)]; ok {
									for _, b := range cc.Body {
										collect(b, m)
									}
								}
							}
						}
					} else {
						collect(st, common)
					}
				}
				for _, m := range per {
					for k := range common {
						m[k] = true
					}
				}
			}
			var rows []string
			jm := map[string][]string{}
			for _, ty := range []string{"QuaiTxType", "ExternalTxType", "QiTxType"} {
				var l []string
				for k := range per[ty] {
					l = append(l, k)
				}
				sort.Strings(l)
				jm[ty] = l
				var q []string
				for _, x := range l {
					q = append(q, leanStr(x))
				}
				rows = append(rows, fmt.Sprintf("  (%s, [%s])", leanStr(ty), strings.Join(q, ", ")))
			}
			fm[t.lean] = jm
			out += "def " + t.lean + " : List (String × List String) := [\n" + strings.Join(rows, ",\n") + "]\n\n"
		}
		facts["tx_fields"] = fm
		return out
	})
}
