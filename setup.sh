#!/bin/bash
# Offline build of the verification framework from files on disk only.
set -e
cd "$(dirname "$0")"
export GOFLAGS=-mod=mod GOPROXY=off GOSUMDB=off GOTOOLCHAIN=local
mkdir -p build go/bin evidence replays
cp /repo/go.sum go/go.sum
(cd go && go build -o bin/extract ./cmd/extract)
go/bin/extract /repo lean/QuaiVerif/Gen || true
(cd lean && lake build QuaiVerif qvdriver)
(cd go && go build -tags verif -o bin/qvh ./cmd/qvh)
echo "setup ok"
